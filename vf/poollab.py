"""PoolLab (check C19): real slimta relay pools under seeded bursts of concurrent attempt() callers,
a scripted next hop with faults, and harness-controlled gates.

Everything slimta-side is the real code: StaticSmtpRelay / StaticLmtpRelay / HttpRelay, their pool
clients, RelayPool and BlockingDeque.  The lab only
  * hands the relay a socket_creator (SMTP/LMTP) or a loopback URL (HTTP),
  * installs a *counting* subclass of BlockingDeque on the relay instance (pass-through; records who
    popped which request, appendleft requeues, idle-timeouts passing through popleft),
  * uses pass-through subclasses of the relay classes that note whether _add_client was called from
    _check_idle or from _remove_client (observation only),
  * blocks scripted replies / connects on gates (gevent Events) which the harness releases in a seeded
    order -- schedule diversity comes from burst arrival and gate release order, never from yields
    injected into slimta code.

The lab records; `judge()` decides offline from the records.
"""
import re
import time
import base64
import random
import socket as _stdsocket
import hashlib
import collections

import gevent
from gevent import Timeout
from gevent import socket as gsocket
from gevent import ssl as gssl
from gevent.event import Event, AsyncResult

import pycares
import slimta.relay.pool as _rpool
from slimta.envelope import Envelope
from slimta.relay import RelayError
from slimta.relay.http import HttpRelay
from slimta.relay.smtp.static import StaticSmtpRelay, StaticLmtpRelay
from slimta.relay.smtp.mx import MxSmtpRelay
from slimta.util.dns import DNSResolver
from slimta.smtp.reply import Reply
from slimta.util.deque import BlockingDeque

from vf.downstream import Downstream

TAG = re.compile(r'\[c(\d+) t(\d+) (\S+)\]')
IDLE_TAG = re.compile(r'\[c(\d+) idle\]')
WATCHDOG = 12.0          # generous real-time bound; firing => inconclusive, never a verdict
CMD_TIMEOUT = 4.0        # slimta command/connect timeouts: far above every scripted delay / gate hold

_CTX = gssl.SSLContext(gssl.PROTOCOL_TLS_CLIENT)   # never used (no STARTTLS offered); avoids loading CAs


def U(*key):
    """Deterministic uniform [0,1) from a key: fault decisions are a pure function of
    (case seed, connection, transaction, stage), not of the order in which greenlets ask."""
    h = hashlib.blake2b(repr(key).encode(), digest_size=8).digest()
    return int.from_bytes(h, 'big') / 2.0 ** 64


# ---------------------------------------------------------------------------- slimta-side observers
class CountingDeque(BlockingDeque):
    """Pass-through BlockingDeque that tells the lab who holds which request."""

    def __init__(self, lab, owner=None):
        super(CountingDeque, self).__init__()
        self.lab = lab
        self.owner = owner          # the RelayPool this deque belongs to

    def append(self, item):
        self.lab.on_enqueue(item, self.owner)
        return super(CountingDeque, self).append(item)

    def appendleft(self, item):
        self.lab.on_requeue(item)
        return super(CountingDeque, self).appendleft(item)

    def popleft(self):
        g = gevent.getcurrent()
        self.lab.on_poll(g)
        try:
            item = super(CountingDeque, self).popleft()
        except Timeout:
            self.lab.on_poll_timeout(g, self.owner)
            raise
        self.lab.on_pop(item, g)
        return item


def _observed(base):
    class Observed(base):
        _lab = None
        _in_remove = 0

        def _remove_client(self, client):
            self._in_remove += 1
            try:
                return super(Observed, self)._remove_client(client)
            finally:
                self._in_remove -= 1
                self._lab.on_client_removed(client)

        def _add_client(self):
            origin = 'remove_client' if self._in_remove else 'check_idle'
            before = set(self.pool)
            try:
                return super(Observed, self)._add_client()
            finally:
                for c in set(self.pool) - before:
                    self._lab.on_client_added(c, origin)
    Observed.__name__ = 'Observed' + base.__name__
    return Observed


ObsSmtp = _observed(StaticSmtpRelay)
ObsLmtp = _observed(StaticLmtpRelay)
ObsHttp = _observed(HttpRelay)


class CountingResult(AsyncResult):
    """Pass-through AsyncResult (what RelayPool.attempt() creates) that remembers every time the slot is
    written: a result slot belongs to one attempt and is written once."""

    def __init__(self):
        super(CountingResult, self).__init__()
        self.sets = []

    def set(self, value=None):
        self.sets.append('value')
        return super(CountingResult, self).set(value)

    def set_exception(self, exception, exc_info=None):
        self.sets.append('exception')
        return super(CountingResult, self).set_exception(exception, exc_info)


_rpool.AsyncResult = CountingResult      # observation only; attempt() looks the name up at call time


# ---------------------------------------------------------------------------- MX relay: stub resolver
Rec = collections.namedtuple('Rec', 'host priority ttl')


class StubChannel(object):
    """pycares-channel-like (the documented DNSResolver.channel hook): answers from the current lab's
    table, asynchronously, optionally after a short delay (callers overtaking each other in DNS)."""

    lab = None

    def query(self, name, query_type, callback):
        t = {pycares.QUERY_TYPE_MX: 'MX', pycares.QUERY_TYPE_A: 'A'}.get(query_type, str(query_type))
        lab = self.lab
        ans, delay = lab.dns_answer(name, t) if lab is not None else (pycares.errno.ARES_ENOTFOUND, 0)
        if delay:
            gevent.spawn_later(delay, self._answer, ans, callback)
        else:
            gevent.get_hub().loop.run_callback(self._answer, ans, callback)

    @staticmethod
    def _answer(ans, callback):
        if isinstance(ans, int):
            callback(None, ans)
        else:
            callback(list(ans), None)

    def getsock(self):
        return [], []

    def timeout(self, t=None):
        return None

    def process_fd(self, r, w):
        pass

    def cancel(self):
        pass


_STUB = StubChannel()


class LabMx(MxSmtpRelay):
    """The real MxSmtpRelay; new_static_relay() is the documented override point "to provide extra
    arguments, such as limiting the number of concurrent connections"."""

    _lab = None

    def new_static_relay(self, destination, port):
        lab = self._lab
        r = ObsSmtp(destination, port=port, pool_size=lab.pool_size, **self._client_kwargs)
        lab.adopt(r, (destination, port))
        return r


class SockProxy(object):
    """Client end of the socketpair; notes close() so 'live' means open at both ends."""

    def __init__(self, sock, on_close):
        self.__dict__['_s'] = sock
        self.__dict__['_on_close'] = on_close
        self.__dict__['_closed'] = False

    def close(self):
        if not self._closed:
            self.__dict__['_closed'] = True
            self._on_close()
        return self._s.close()

    def setsockopt(self, level, *a):
        if level == _stdsocket.IPPROTO_TCP:      # http.client sets TCP_NODELAY; this is a socketpair
            return None
        return self._s.setsockopt(level, *a)

    def __getattr__(self, name):
        return getattr(self._s, name)


# ---------------------------------------------------------------------------- next hops
class LabDownstream(Downstream):

    def __init__(self, lab, **kw):
        super(LabDownstream, self).__init__(script=lab.script, idle_stage=True, **kw)
        self.lab = lab

    def _send(self, f, c, ctx, stage, ok):
        # stamp every single-line reply with the stage it answers ('@data', '@rset', ...) and the
        # connection/transaction tag, so the offline oracle can tell whether the k-th reply the client
        # consumed is the k-th the server sent (reply-stream alignment)
        if ok.count(b'\n') == 1:
            body = ok.rstrip(b'\r\n')
            if b'[c' not in body:
                body += b' [' + self._tag(ctx).encode() + b']'
            ok = body + b' @' + stage.encode() + b'\r\n'
        return super(LabDownstream, self)._send(f, c, ctx, stage, ok)

    def serve(self, sock, c):
        try:
            return super(LabDownstream, self).serve(sock, c)
        finally:
            self.lab.conn_closed(c.n, 'server')


class HttpConn(object):
    def __init__(self, n):
        self.n = n
        self.txns = []        # dicts: marker, sender, rcpts, status, accepted
        self.opened = True
        self.closed_by = None


class HttpDown(object):
    """Scripted HTTP next hop for HttpRelay (own request reader, no slimta code), spoken over
    socketpairs: slimta.relay.http.get_connection is wrapped for the duration of a run so that the
    *real* slimta.http.HTTPConnection it returns connects through `creator` instead of TCP (the exact
    analogue of socket_creator= of the SMTP relays; the shared sandbox has no reliable loopback ports).
    stages: 'connect' and 'request' (request fully read).
    actions: ('ok',) 200 + X-Smtp-Reply 250; ('reply', smtp_code) non-2xx status with X-Smtp-Reply;
    ('status', http_status) bare status without X-Smtp-Reply; ('close',) drop the connection;
    ('okclose',) answer 200 and then drop the kept-alive connection; ('refuse',) at connect;
    ('delay', s, action)."""

    def __init__(self, lab):
        self.lab = lab
        self.conns = []
        self.live = 0
        self.max_live = 0
        self.connects = 0
        self.greenlets = []
        self.url = 'http://nexthop.test:8025/deliver'
        import slimta.relay.http as rh
        self._rh = rh
        self._orig = rh.get_connection

        def get_connection(url, context=None):
            conn = self._orig(url, context)
            conn._create_connection = self.creator
            return conn
        rh.get_connection = get_connection

    def stop(self):
        self._rh.get_connection = self._orig

    def _act(self, ctx, stage):
        a = self.lab.script(ctx, stage) or ('ok',)
        while a[0] == 'delay':
            gevent.sleep(a[1])
            a = a[2]
        return a

    def creator(self, address, *args, **kw):
        self.connects += 1
        ctx = {'conn': len(self.conns), 'txn': 0, 'marker': None, 'mode': 'http'}
        a = self._act(ctx, 'connect')
        if a[0] == 'refuse':
            raise _stdsocket.error(111, 'Connection refused (scripted)')
        ours, theirs = gsocket.socketpair()
        c = HttpConn(len(self.conns))
        self.conns.append(c)
        self.lab.conn_opened(c.n, None, gevent.getcurrent())
        self.greenlets.append(gevent.spawn(self.handle, theirs, c, a))
        return SockProxy(ours, lambda: self.lab.conn_closed(c.n, 'client'))

    def handle(self, sock, c, connect_action):
        self.live += 1
        self.max_live = max(self.max_live, self.live)
        f = sock.makefile('rwb')
        ctx = {'conn': c.n, 'txn': 0, 'marker': None, 'mode': 'http'}
        try:
            if connect_action[0] == 'close':
                c.closed_by = 'server'
                return
            while True:
                line = f.readline()
                if not line:
                    c.closed_by = 'peer'
                    return
                hdrs = []
                while True:
                    h = f.readline()
                    if h in (b'\r\n', b'\n', b''):
                        break
                    k, _, v = h.partition(b':')
                    hdrs.append((k.strip().lower(), v.strip()))
                n = int(dict(hdrs).get(b'content-length', b'0'))
                body = f.read(n) if n else b''
                marker = None
                for l in body.split(b'\n'):
                    if l.lower().startswith(b'x-verif-msg:'):
                        marker = l.split(b':', 1)[1].strip().decode('latin-1')
                        break
                    if l in (b'\r', b''):
                        break
                t = {'marker': marker,
                     'sender': [base64.b64decode(v).decode() for k, v in hdrs if k == b'x-envelope-sender'],
                     'rcpts': [base64.b64decode(v).decode() for k, v in hdrs if k == b'x-envelope-recipient'],
                     'accepted': False, 'status': None}
                ctx['txn'] = len(c.txns)
                ctx['marker'] = marker
                c.txns.append(t)
                a = self._act(ctx, 'request')
                tag = 'c%d t%d %s' % (c.n, ctx['txn'], marker or '-')
                if a[0] == 'close':
                    c.closed_by = 'server'
                    return
                if a[0] in ('ok', 'okclose'):
                    t['accepted'] = True
                    t['status'] = 200
                    out = ('HTTP/1.1 200 OK\r\nContent-Length: 0\r\n'
                           'X-Smtp-Reply: 250; message="2.6.0 queued [%s]"\r\n\r\n' % tag)
                elif a[0] == 'reply':
                    st = 503 if a[1][0] == '4' else 500
                    t['status'] = st
                    # optional third element: shape of the X-Smtp-Reply value (a next hop may send any)
                    shape = a[2] if len(a) > 2 else 'std'
                    hv = {'std': '%s; message="%s.0.0 scripted failure [%s]"' % (a[1], a[1][0], tag),
                          'nomsg': '%s; command="RCPT"' % a[1],
                          'bare': '%s;' % a[1],
                          'unquoted': '%s; message=%s.3.0 try later' % (a[1], a[1][0]),
                          'extra': '%s; foo="bar"; message="%s.1.1 scripted [%s]"; command="RCPT"' % (a[1], a[1][0], tag),
                          }[shape]
                    out = ('HTTP/1.1 %d Failed\r\nContent-Length: 0\r\n'
                           'X-Smtp-Reply: %s\r\n\r\n' % (st, hv))
                elif a[0] == 'status':
                    t['status'] = a[1]
                    out = 'HTTP/1.1 %d Scripted [%s]\r\nContent-Length: 0\r\n\r\n' % (a[1], tag)
                elif a[0] == 'body':
                    # the message is accepted and the response head is complete (the attempt gets its result);
                    # the announced body is then withheld / trickled / cut while the connection is kept
                    t['accepted'] = True
                    t['status'] = 200
                    framing = 'Transfer-Encoding: chunked' if a[1] == 'chunked-stall' else 'Content-Length: %d' % a[2]
                    out = ('HTTP/1.1 200 OK\r\n%s\r\n'
                           'X-Smtp-Reply: 250; message="2.6.0 queued [%s]"\r\n\r\n' % (framing, tag))
                else:
                    raise ValueError(a)
                f.write(out.encode())
                f.flush()
                self.lab.ev('txn', c.n, ctx['txn'], t['status'])
                if a[0] == 'okclose':
                    c.closed_by = 'server'
                    return
                if a[0] == 'body':
                    kind, n = a[1], a[2]
                    self.lab.body_pending[c.n] = kind
                    try:
                        if kind == 'cut':
                            f.write(b'x' * (n // 2))
                            f.flush()
                            c.closed_by = 'server'
                            return
                        if kind == 'trickle':
                            self.lab.trickles += 1
                            try:
                                for _ in range(n):
                                    gevent.sleep(a[3])
                                    f.write(b'x')
                                    f.flush()
                            finally:
                                self.lab.trickles -= 1
                        elif kind == 'chunked-stall':
                            f.write(b'3\r\nabc\r\n')
                            f.flush()
                            self.lab.stall(('body', c.n))
                            f.write(b'0\r\n\r\n')
                            f.flush()
                        else:
                            f.write(b'x' * (n // 2))
                            f.flush()
                            self.lab.stall(('body', c.n))
                            f.write(b'x' * (n - n // 2))
                            f.flush()
                    finally:
                        self.lab.body_pending.pop(c.n, None)
        except (OSError, IOError, ValueError):
            c.closed_by = c.closed_by or 'peer'
        finally:
            self.live -= 1
            c.opened = False
            self.lab.conn_closed(c.n, 'server')
            for x in (f, sock):
                try:
                    x.close()
                except Exception:
                    pass


# ---------------------------------------------------------------------------- the lab
class Caller(object):
    def __init__(self, i, marker, sender, rcpts):
        self.i = i
        self.marker = marker
        self.sender = sender
        self.rcpts = rcpts
        self.env = None
        self.request = None       # the (AsyncResult, envelope) tuple once attempt() queued it
        self.pool = None          # the RelayPool whose queue took the request
        self.done = False
        self.result = None
        self.error = None
        self.crash = None
        self.greenlet = None
        self.attempts = 0
        self.entered = False      # its greenlet has begun to run
        self.bad_envelope = False
        self.give_up = None       # None | ('kill',) | ('timeout', seconds): a caller that stops waiting
        self.gave_up = False


class BadEnvelope(Envelope):
    """an envelope the client cannot serialise: an unexpected exception inside the pool client"""
    _marker = '?'

    def flatten(self):
        raise RuntimeError('flatten failed for [%s]' % self._marker)


def deque_ops(case):
    """Direct workload for the anchored mechanism 'semaphore count equals deque length': seeded sequences of every
    public mutator of BlockingDeque with blocking poppers.  Returns (breaks, stats); judged in the check."""
    rnd = random.Random('dq-%r' % (case['seed'],))
    q = BlockingDeque()
    inserted, taken, discarded = [], [], []
    waiting = [0]
    breaks = []
    stats = collections.Counter()

    def popper(side):
        waiting[0] += 1
        try:
            taken.append(q.popleft() if side == 'l' else q.pop())
        finally:
            waiting[0] -= 1

    def new():
        inserted.append(len(inserted))
        return inserted[-1]
    greenlets = []
    for step in range(case['nops']):
        op = rnd.choice(['append', 'append', 'appendleft', 'extend', 'extendleft', 'popper-l', 'popper-l', 'popper-r',
                         'remove', 'remove-absent', 'clear'])
        stats['op:' + op] += 1
        if op == 'append':
            q.append(new())
        elif op == 'appendleft':
            q.appendleft(new())
        elif op == 'extend':
            q.extend([new() for _ in range(rnd.randint(0, 3))])
        elif op == 'extendleft':
            q.extendleft([new() for _ in range(rnd.randint(0, 3))])
        elif op.startswith('popper'):
            if waiting[0]:
                stats['popper-blocked-behind-another'] += 1
            greenlets.append(gevent.spawn(popper, op[-1]))
        elif op == 'remove':
            if len(q):
                x = rnd.choice(list(q))
                q.remove(x)
                discarded.append(x)
            else:
                stats['op:remove-on-empty'] += 1
                op = 'remove-absent'
        if op == 'remove-absent':
            try:
                q.remove(-1)
                breaks.append({'op': op, 'what': 'remove() of an absent item did not raise ValueError'})
            except ValueError:
                pass
        elif op == 'clear':
            discarded.extend(q)
            q.clear()
        if q.sema.counter != len(q):
            breaks.append({'op': op, 'step': step, 'what': 'counter != len', 'counter': q.sema.counter,
                           'len': len(q), 'poppers_waiting': waiting[0]})
        if rnd.random() < 0.7:
            gevent.idle()
            gevent.idle()
            if waiting[0] and not len(q):
                stats['popper-waiting-on-empty-deque'] += 1
            if q.sema.counter != len(q):
                breaks.append({'op': op, 'step': step, 'what': 'counter != len', 'counter': q.sema.counter,
                               'len': len(q), 'poppers_waiting': waiting[0]})
            if waiting[0] and len(q):
                breaks.append({'op': op, 'step': step, 'what': 'popper still blocked although items are queued',
                               'len': len(q), 'poppers_waiting': waiting[0], 'counter': q.sema.counter})
            stats['checks'] += 1
    gevent.idle()
    gevent.idle()
    if q.sema.counter != len(q):
        breaks.append({'op': 'final', 'what': 'counter != len', 'counter': q.sema.counter, 'len': len(q)})
    if sorted(taken + discarded + list(q)) != inserted:
        breaks.append({'op': 'final', 'what': 'items lost or duplicated', 'inserted': len(inserted),
                       'taken': len(taken), 'discarded': len(discarded), 'left': len(q)})
    for g in greenlets:
        if not g.dead:
            g.kill(block=False)
    gevent.sleep(0)
    return breaks, stats


GATE_P = {'connect': 0.35, 'quit': 0.45, 'eod0': 0.2, 'idle': 0.4, 'banner': 0.15, 'mail': 0.1, 'request': 0.4}
GIVE_UP_AFTER = [0.0, 0.001, 0.004, 0.012, 0.03]


class PoolLab(object):

    def __init__(self, case):
        self.case = case
        self.seed = case['seed']
        self.mode = case['mode']
        self.pool_size = case['pool_size']
        self.idle = case['idle']
        self.ncallers = case['ncallers']
        self.mix = set(case['mix'])
        self.cmd_timeout = case.get('cmd_timeout') or CMD_TIMEOUT
        self.p_giveup = case.get('giveup') or 0.0
        self.kill_after = case.get('kill_after')
        self.rnd = random.Random('lab-%r' % (self.seed,))
        self.events = []
        self.held = []                 # [(label, Event)] gates currently holding something
        self.gated = set()
        self.faulted = {}              # key -> fault kind (distinct decisions actually applied)
        self.faults_on = True
        self.open = set()
        self.open_by_dest = collections.defaultdict(set)
        self.conn_dest = {}
        self.conn_owner = {}           # connection -> the greenlet that called socket_creator
        self.max_open = 0
        self.max_open_dest = None
        self.bound_witness = None
        self.pools = []                # every RelayPool of the run (one; MX relay: one per destination)
        self.clients = []              # (client greenlet, origin)
        self.origin = {}
        self.holder = {}               # id(request tuple[0]) -> greenlet that popped it
        self.pops = collections.Counter()     # greenlet -> number of requests popped
        self.cnt = collections.Counter()
        self.callers = []
        self.by_env = {}
        self.last_poll = None
        self.late_keys = set()         # (conn, txn) with a reply scripted later than command_timeout
        self.crashes = []              # exceptions that killed greenlets (hub.print_exception)
        self.invariant_breaks = []
        self.kill = None               # state of the relay.kill() call of the 'kill' stratum
        self.dns_queries = collections.Counter()
        self.pool_domains = collections.defaultdict(set)
        self.stalls = []               # [(label, Event)] next-hop stalls: held until the drain has judged them
        self.trickles = 0              # response bodies being trickled right now
        self.body_pending = {}         # http connection -> kind of unfinished response body
        self.epoch = 0                 # patience rounds of the drain (see _patience)
        self.pop_epoch = {}            # id(result) -> epoch in which a client took the request
        self.http = None
        self.ds = None
        if self.mode == 'http':
            self.http = HttpDown(self)
            kw = {'timeout': case.get('http_timeout')}
            self.relay = ObsHttp(self.http.url, pool_size=self.pool_size, idle_timeout=self.idle,
                                 ehlo_as='poollab', **kw)
            self.adopt(self.relay, None)
        elif self.mode == 'mx':
            self.ds = LabDownstream(self, lmtp=False, pipelining=case.get('pipelining', True))
            _STUB.lab = self
            DNSResolver.channel = _STUB
            DNSResolver._channel = _STUB
            self.relay = LabMx(context=_CTX, socket_creator=self.creator, ehlo_as='poollab',
                               idle_timeout=self.idle, connect_timeout=CMD_TIMEOUT,
                               command_timeout=self.cmd_timeout)
            self.relay._lab = self
            self._mx_tables()
        else:
            self.ds = LabDownstream(self, lmtp=(self.mode == 'lmtp'), pipelining=case.get('pipelining', True))
            cls = ObsLmtp if self.mode == 'lmtp' else ObsSmtp
            self.relay = cls('downstream.test', 25, pool_size=self.pool_size, context=_CTX,
                             socket_creator=self.creator, ehlo_as='poollab', idle_timeout=self.idle,
                             connect_timeout=CMD_TIMEOUT, command_timeout=self.cmd_timeout)
            self.adopt(self.relay, None)

    def adopt(self, pool, dest):
        """install the observers on a RelayPool (MX relay: called from new_static_relay)."""
        pool._lab = self
        pool._dest = dest
        assert len(pool.queue) == 0 and not pool.pool
        pool.queue = CountingDeque(self, pool)
        self.pools.append(pool)
        if dest is not None:
            self.cnt['mx:pool-created'] += 1
            self.ev('pool', dest[0], dest[1])

    # ------------------------------------------------------------------ MX relay: domains, hosts, resolver
    def _mx_tables(self):
        s, case = self.seed, self.case
        nd, nh = case.get('ndomains', 3), case.get('nhosts', 2)
        self.hosts = ['mx%d.hop.test' % h for h in range(nh)]
        self.domains = ['dom%d.test' % k for k in range(nd)]
        self.mx = {}
        for k, dom in enumerate(self.domains):
            u = U(s, 'domkind', k)
            if u < case.get('forced', 0.2):
                host = self.hosts[int(U(s, 'fh', k) * nh)]
                port = 25 if U(s, 'fp', k) < 0.6 else 2525
                self.relay.force_mx(dom.upper() if U(s, 'fu', k) < 0.5 else dom, host, port)
                self.mx[dom] = ('forced', host, port)
            elif u < case.get('forced', 0.2) + 0.12:
                self.mx[dom] = ('a-only',)
            elif 'dnsfail' in self.mix and u > 0.93:
                self.mx[dom] = ('fail',)
            else:
                nrec = 1 + int(U(s, 'nrec', k) * min(3, nh))
                self.mx[dom] = ('mx', [int(U(s, 'mxh', k, j) * nh) for j in range(nrec)])

    def dns_answer(self, name, t):
        name = name.lower()
        q = self.dns_queries[(name, t)]
        self.dns_queries[(name, t)] += 1
        self.cnt['mx:dns-query'] += 1
        if q:
            self.cnt['mx:dns-requery-after-expiry'] += 1
        delay = [0, 0, 0.002, 0.006][int(U(self.seed, 'dnsd', name, t, q) * 4)]
        kind = self.mx.get(name, ('fail',))
        rotate = self.case.get('rotate')
        ttl = 0 if rotate else 300
        if kind[0] == 'mx' and t == 'MX':
            nh = len(self.hosts)
            shift = q if rotate else 0
            return [Rec(self.hosts[(h + shift) % nh], 10 * (j + 1), ttl) for j, h in enumerate(kind[1])], delay
        if kind[0] == 'a-only':
            if t == 'MX':
                return pycares.errno.ARES_ENODATA, delay
            return [Rec(name, 0, ttl)], delay
        if kind[0] == 'fail':
            return pycares.errno.ARES_ESERVFAIL, delay
        return pycares.errno.ARES_ENOTFOUND, delay

    # ------------------------------------------------------------------ recording
    def ev(self, *e):
        self.events.append(e)

    def shared_destinations(self):
        """pools (destinations) that served the recipients' domains of more than one domain"""
        return sum(1 for d in self.pool_domains.values() if len(d) > 1)

    def queued_total(self):
        return sum(len(p.queue) for p in self.pools)

    def on_enqueue(self, item, owner):
        c = self.by_env.get(id(item[1]))
        if c is not None:
            c.request = item
            c.pool = owner
            self.pool_domains[id(owner)].add(c.rcpts[0].split('@')[1])
        pool = owner.pool
        if any(cl.dead for cl in pool):
            self.cnt['race:enqueue-while-finished-client-still-in-pool'] += 1
        if any(getattr(cl, 'idle', False) for cl in pool) and len(owner.queue):
            self.cnt['race:enqueue-behind-request-an-idle-client-has-not-taken-yet'] += 1
        if pool and not any(getattr(cl, 'idle', False) or cl.dead for cl in pool):
            self.cnt['race:enqueue-while-every-client-busy-or-exiting'] += 1
        if self.kill is not None:
            self.cnt['kill:attempt-arrived-after-kill'] += 1
        if owner._dest is not None and len(self.pools) > 1 and \
                any(p is not owner and (p.pool or len(p.queue)) for p in self.pools):
            self.cnt['mx:enqueue-while-another-destination-active'] += 1

    def on_poll(self, g):
        if self.pops[g]:
            self.last_poll = time.time()

    def on_requeue(self, item):
        self.cnt['requeue'] += 1
        self.holder.pop(id(item[0]), None)
        self.ev('requeue',)

    def stall(self, label):
        e = Event()
        self.stalls.append((label, e))
        self.cnt['stall:' + label[0]] += 1
        self.ev('stall', label[0], label[1])
        e.wait()

    def pending_body_of(self, g):
        """kinds of unfinished response bodies on open connections the client greenlet g created"""
        return sorted(k for n, k in self.body_pending.items() if n in self.open and self.conn_owner.get(n) is g)

    def on_pop(self, item, g):
        self.holder[id(item[0])] = g
        self.pops[g] += 1
        self.pop_epoch[id(item[0])] = self.epoch
        for k in self.pending_body_of(g):
            self.cnt['http-reuse-with-unfinished-response-body'] += 1
            self.cnt['http-reuse:body-' + k] += 1
        c = self.by_env.get(id(item[1]))
        if c is not None and c.gave_up:
            self.cnt['giveup:abandoned-request-taken-by-a-client-later'] += 1

    def on_poll_timeout(self, g, owner):
        if len(owner.queue):
            # a caller saw this client idle, queued its request, and the client leaves without it
            self.cnt['race:idle-expiry-with-request-queued'] += 1
        if self.pops[g]:
            self.cnt['idle-expiry'] += 1
            self.ev('idle-expiry',)
        else:
            self.cnt['idle-expiry-unused-client'] += 1

    def on_client_added(self, client, origin):
        self.clients.append(client)
        self.origin[client] = origin
        if origin == 'remove_client':
            self.cnt['respawn'] += 1
            self.ev('respawn',)
            if self.kill is not None:
                self.cnt['kill:respawn-for-queued-work-after-kill'] += 1

    def on_client_removed(self, client):
        pass

    def conn_opened(self, n, dest=None, owner=None):
        self.open.add(n)
        self.conn_dest[n] = dest
        self.conn_owner[n] = owner
        mine = self.open_by_dest[dest]
        mine.add(n)
        self.ev('open', n)
        if dest is not None and len(self.open) > len(mine):
            self.cnt['mx:connections-to-several-destinations-open-at-once'] += 1
        if len(mine) > self.max_open:
            self.max_open = len(mine)
            self.max_open_dest = dest
            if self.pool_size and self.max_open > self.pool_size and self.bound_witness is None:
                pools = [p for p in self.pools if p._dest == dest]
                self.bound_witness = {
                    'open_connections': sorted(mine), 'pool_size': self.pool_size, 'destination': dest,
                    'pools_for_this_destination': len(pools),
                    'pool_len': [len(p.pool) for p in pools],
                    'client_origins': [self.origin.get(c) for p in pools for c in p.pool],
                    'last_origin': self.origin.get(self.clients[-1]) if self.clients else None,
                    'events_tail': self.events[-12:]}

    def conn_closed(self, n, side):
        if n in self.open:
            self.open.discard(n)
            self.open_by_dest[self.conn_dest.get(n)].discard(n)
            self.ev('close', n, side)

    def fault(self, key, kind):
        if key not in self.faulted:
            self.faulted[key] = kind
            self.cnt['fault:' + kind] += 1
            return True
        return False

    # ------------------------------------------------------------------ next-hop script + gates
    def creator(self, address):
        owner = gevent.getcurrent()
        sock = self.ds.creator(address)
        n = len(self.ds.conns) - 1
        self.conn_opened(n, tuple(address) if self.mode == 'mx' else None, owner)
        return SockProxy(sock, lambda: self.conn_closed(n, 'client'))

    def gate(self, key, label):
        if key in self.gated or not self.faults_on:
            return
        self.gated.add(key)
        e = Event()
        self.held.append((label, e))
        self.cnt['gate:' + label[0]] += 1
        e.wait()

    def script(self, ctx, stage):
        conn, txn = ctx['conn'], ctx['txn']
        if stage == 'connect':
            key = ('connect', (self.ds or self.http).connects)
        else:
            key = (conn, txn, stage)
        if stage == 'mail':
            self.ev('txn', conn)
        if not self.faults_on:
            return ('ok',)
        mix, s = self.mix, self.seed
        u = U(s, 'f', key)
        act = ('ok',)
        if self.mode == 'http':
            if stage == 'connect':
                if 'refuse' in mix and u < 0.2:
                    act = ('refuse',)
                elif 'close' in mix and u > 0.88:
                    act = ('close',)
            elif stage == 'request':
                if 'txn' in mix and u < 0.3:
                    code = ['450', '451', '550', '554'][int(U(s, 'c', key) * 4)]
                    act = ('reply', code) if U(s, 'h', key) < 0.6 else ('status', 404 if code[0] == '5' else 502)
                elif 'close' in mix and u > 0.85:
                    act = ('close',)
                elif 'idleclose' in mix and 0.4 < u < 0.75:
                    act = ('okclose',)
                elif 'timeout' in mix and 0.3 <= u < 0.4 and self.case.get('http_timeout'):
                    act = ('delay', self.case['http_timeout'] * 6, ('ok',))
                if 'bodystall' in mix and act == ('ok',) and U(s, 'b', key) < 0.55:
                    T = self.case['http_timeout']
                    kind = ['stall', 'stall', 'chunked-stall', 'trickle', 'cut'][int(U(s, 'bk', key) * 5)]
                    # trickle: 24 bytes, one every 0.4 T -- far longer than the relay timeout and than the drain's
                    # patience, but it ends by itself
                    act = ('body', kind, 24 if kind == 'trickle' else 4 + int(U(s, 'bn', key) * 60), 0.4 * T)
        elif stage == 'connect':
            if 'refuse' in mix and u < 0.3:
                act = ('refuse',)
        elif stage == 'idle':
            if 'idle421' in mix and u < 0.55:
                # the announcement of a server-side idle timeout need not be a 421 (seed C19k): any unsolicited reply
                # on an idling connection is followed by the next hop closing it
                act = ('reply', ['421', '421', '451', '420', '221', '554', '250'][int(U(s, 'ic', key) * 7)])
            elif 'close' in mix and u > 0.9:
                act = ('close',)
        elif stage in ('mail', 'data') or stage.startswith('rcpt') or stage.startswith('eod'):
            if 'txn' in mix and u < 0.2:
                act = ('reply', ['450', '451', '452', '550', '552', '554'][int(U(s, 'c', key) * 6)])
            elif 'close' in mix and u > 0.95:
                act = ('close',)
            elif 'oddcode' in mix and 0.2 <= u < (0.5 if stage.startswith('eod') else 0.3) and \
                    (stage != 'data' or 'odddata' in mix):
                # a reply that is neither 2xx nor an error: 1xx / 3xx (and a code outside 1xx-5xx); the transaction
                # has failed all the same and must be reset before the connection carries the next message
                act = ('reply', ['150', '199', '334', '354', '354', '399', '650'][int(U(s, 'oc', key) * 7)])
        elif stage in ('banner', 'ehlo', 'rset', 'quit'):
            if 'close' in mix and u > 0.93:
                act = ('close',)
            elif 'txn' in mix and stage == 'banner' and u < 0.06:
                act = ('reply', '554' if u < 0.03 else '421')
        if act[0] == 'reply' and self.mode != 'http' and stage != 'idle':
            act = (act[0], act[1], 'scripted @%s' % stage)
        if act[0] != 'ok':
            fresh = self.fault(key, 'body-' + act[1] if act[0] == 'body' else
                               act[0] if act[0] != 'reply' else 'reply@' + re.sub(r'\d+', '', stage))
            self.ev('fault', conn, stage, act[0])
            if fresh and act[0] in ('close', 'refuse', 'okclose') or (fresh and stage == 'idle'):
                # the client on this connection is about to die / lose its connection at this stage
                st = re.sub(r'\d+', '', stage)
                self.cnt['death:' + st] += 1
                if self.queued_total():
                    self.cnt['death:%s-with-work-queued' % st] += 1
                    self.cnt['client-death-with-work-queued'] += 1
        lateeod = 'lateeod' in mix and stage.startswith('eod')      # the message is accepted, the reply is late
        if ('late' in mix or lateeod) and self.mode != 'http' and stage not in ('connect', 'idle', 'noop', 'other'):
            # a reply later than the relay's command_timeout: after a failed transaction's RSET (the
            # followers are already queued), and now and then at any other stage
            p = 0.35 if lateeod else 0.6 if stage == 'rset' else 0.05
            if U(s, 'l', key) < p and act[0] in ('ok', 'reply'):
                st = re.sub(r'\d+', '', stage)
                if ('late', key) not in self.faulted:
                    self.late_keys.add((conn, txn))
                    if self.queued_total():
                        self.cnt['late-%s-with-followers-queued' % st] += 1
                self.fault(('late', key), 'late@' + st)
                self.ev('fault', conn, stage, 'late')
                # 1.5x: the reply arrives after a queued follower has been polled and has sent its first
                # commands (poll + 10 ms server-timeout probe), but before the follower's own command
                # timeout; 2.5x: after that as well
                return ('delay', self.cmd_timeout * (1.5 if U(s, 'lf', key) < 0.7 else 2.5), act)
        if 'stall' in mix and stage in ('quit', 'rset') and U(s, 'st', key) < 0.5:
            # the next hop never answers this command and keeps the connection open: the client runs into its
            # command timeout during RSET / QUIT and has to drop the connection itself
            if self.fault(('stall', key), 'stall@' + stage):
                self.cnt['death:%s-stalled' % stage] += 1
                if self.queued_total():
                    self.cnt['death:%s-stalled-with-work-queued' % stage] += 1
                    self.cnt['client-death-with-work-queued'] += 1
            self.ev('fault', conn, stage, 'stall')
            return ('stall',)
        if 'slow' in mix and act[0] not in ('refuse',) and U(s, 's', key) < 0.3:
            self.fault(('slow', key), 'slow')
            act = ('delay', [0.002, 0.006, 0.013][int(U(s, 'd', key) * 3)], act)
        if 'gates' in mix and stage in GATE_P and U(s, 'g', key) < GATE_P[stage]:
            self.gate(key, (stage, conn))
        return act

    # ------------------------------------------------------------------ callers
    def _caller(self, c, delay=None):
        c.entered = True
        try:
            if delay is not None:
                # woken by its own timer, like a caller woken by I/O in the same loop iteration in
                # which a client's idle timer expires (the caller runs attempt() before that timer fires)
                gevent.sleep(delay)
                self.ev('call', c.i)
            if c.give_up and c.give_up[0] == 'timeout':
                # a caller that stops waiting after a while (its own Timeout around attempt())
                try:
                    with Timeout(c.give_up[1]):
                        c.result = self.relay.attempt(c.env, c.attempts)
                except Timeout:
                    self._note_giveup(c, 'timeout')
                    c.crash = 'gave-up-after-timeout'
            else:
                c.result = self.relay.attempt(c.env, c.attempts)
        except RelayError as e:
            c.error = e
        except BaseException as e:       # noqa
            c.crash = e
            if isinstance(e, gevent.GreenletExit):
                c.crash = 'killed-by-harness'
        finally:
            c.done = True
            self.ev('done', c.i)

    def _note_giveup(self, c, how):
        """where was the request when its caller stopped waiting?"""
        c.gave_up = True
        if c.request is None:
            where = 'before-enqueue'
        elif c.request[0].ready():
            where = 'result-already-set'
        elif c.pool is not None and any(it[1] is c.env for it in c.pool.queue):
            where = 'while-queued'
        else:
            where = 'in-flight'
        c.gave_up_where = where
        self.cnt['giveup:%s-%s' % (how, where)] += 1
        self.cnt['caller-gave-up-' + where] += 1
        self.ev('giveup', c.i)

    def abandon(self, c):
        """the harness kills a greenlet that waits in attempt() (what Queue.kill() / a pool shutdown does)."""
        self._note_giveup(c, 'killed')
        c.greenlet.kill(block=False)

    def start_caller(self, delay=None):
        i = len(self.callers)
        marker = 'm%d' % i
        sender = 'from%d@s.test' % i
        dom = 'd.test'
        if self.mode == 'mx':
            dom = self.domains[int(U(self.seed, 'dom', i) * len(self.domains))]
        rcpts = ['r%d.%d@%s' % (i, j, dom) for j in range(1 + int(U(self.seed, 'nr', i) * 3))]
        c = Caller(i, marker, sender, rcpts)
        if self.mode == 'mx':
            c.attempts = int(U(self.seed, 'att', i) * 3)
        if self.p_giveup and U(self.seed, 'gu', i) < self.p_giveup:
            if U(self.seed, 'guk', i) < 0.5:
                c.give_up = ('kill',)
            else:
                c.give_up = ('timeout', GIVE_UP_AFTER[int(U(self.seed, 'gut', i) * len(GIVE_UP_AFTER))])
        if 'badenv' in self.mix and U(self.seed, 'bad', i) < 0.25:
            env = BadEnvelope(sender, list(rcpts))
            env._marker = marker
            c.bad_envelope = True
            self.cnt['unserialisable-envelope'] += 1
        else:
            env = Envelope(sender, list(rcpts))
        env.parse(('X-Verif-Msg: %s\r\nSubject: c19 %d\r\n\r\nbody of %s\r\n' % (marker, i, marker)).encode())
        c.env = env
        self.by_env[id(env)] = c
        self.callers.append(c)
        c.greenlet = gevent.spawn(self._caller, c, delay)
        if delay is None:
            self.ev('call', i)

    # ------------------------------------------------------------------ relay.kill() with attempts in flight
    def in_flight(self):
        out = []
        for c in self.blocked():
            if c.request is None or c.request[0].ready():
                continue
            h = self.holder.get(id(c.request[0]))
            if h is not None and not h.dead:
                out.append(c)
        return out

    def start_kill(self):
        inflight = self.in_flight()
        queued = self.queued_total()
        self.kill = {'done': False, 'error': None, 'inflight': [c.marker for c in inflight], 'queued': queued,
                     'clients': sum(len(p.pool) for p in self.pools),
                     'victims': [cl for p in self.pools for cl in p.pool]}
        self.cnt['kill:calls'] += 1
        if inflight:
            self.cnt['kill-with-attempts-in-flight'] += 1
        if queued:
            self.cnt['kill:with-requests-queued'] += 1
        if self.kill['clients'] > 1:
            self.cnt['kill:several-clients'] += 1
        self.ev('kill', len(inflight), queued)
        self.kill['greenlet'] = gevent.spawn(self._do_kill)

    def _do_kill(self):
        try:
            self.relay.kill()
        except gevent.GreenletExit:
            self.kill['aborted'] = True
        except BaseException as e:       # noqa
            self.kill['error'] = e
            self.kill['events_tail'] = self.events[-10:]
        finally:
            self.kill['done'] = True
            self.ev('killed',)

    # ------------------------------------------------------------------ invariants at harness steps
    def check_invariant(self, where):
        self.cnt['deque-checks'] += 1
        for p in self.pools:
            q = p.queue
            if q.sema.counter != len(q):
                self.invariant_breaks.append({'where': where, 'counter': q.sema.counter, 'len': len(q)})

    def settle(self, rounds=2):
        for _ in range(rounds):
            gevent.idle()
        self.check_invariant('settle')

    # ------------------------------------------------------------------ the run
    def run(self):
        hub = gevent.get_hub()
        old_print = hub.print_exception

        def hook(context, t, v, tb):
            if t is not None and not issubclass(t, gevent.GreenletExit):
                self.crashes.append((context, t.__name__, str(v)[:200]))
        hub.print_exception = hook
        t0 = time.time()
        try:
            self._plan()
            outcome = self._drain(t0)
        finally:
            hub.print_exception = old_print
        return outcome

    def _plan(self):
        rnd = self.rnd
        remaining = self.ncallers
        naps = [0.0, 0.004, 0.012]
        if self.idle:
            naps += [self.idle * 0.5, self.idle * 0.95, self.idle * 1.0, self.idle * 1.05, self.idle * 1.6]
        steps = 0
        t_end = time.time() + WATCHDOG / 2
        while (remaining or self.held or self.blocked()) and steps < 600 and time.time() < t_end:
            steps += 1
            if self.kill_after is not None and self.kill is None and steps >= self.kill_after and \
                    (self.in_flight() or steps >= self.kill_after + 6):
                self.start_kill()
                if rnd.random() < 0.5:
                    gevent.sleep(0)
            if not remaining and not self.held:
                # nothing left for the harness to decide: only wait -- unless what is left is stuck for good
                self.settle()
                if self._stranded():
                    break
                if self.stalls or self.trickles:
                    break       # the drain judges what the stalled next hop does to the callers
            ch = ['nap', 'settle']
            if remaining and self.idle and self.last_poll:
                ch += ['snipe'] * 2
            if remaining:
                ch += ['burst'] * 3
            if self.held:
                ch += ['release'] * (3 if not remaining else 2)
            if self.p_giveup:
                victims = [c for c in self.blocked() if c.give_up == ('kill',) and not c.gave_up
                           and c.entered]
                if victims:
                    ch += ['abandon'] * 2
            op = rnd.choice(ch)
            trickle = self.case.get('arrival') == 'trickle'
            if op == 'burst' and trickle and self.blocked() and rnd.random() < 0.7:
                op = 'nap'      # one caller at a time: the next one mostly meets an idling client
            if op == 'snipe':
                # arrive just when the client that polled last reaches its idle timeout
                eps = rnd.choice([-0.0012, -0.0008, -0.0004, -0.0002, -0.0001, 0.0, 0.0002])
                wait = self.last_poll + self.idle + eps - time.time()
                self.last_poll = None
                if wait > 0:
                    self.cnt['snipe'] += 1
                    k = 1 if rnd.random() < 0.7 else min(remaining, 2)
                    for _ in range(k):
                        self.start_caller(delay=wait)
                    remaining -= k
                    gevent.sleep(wait + 0.002)
                    self.check_invariant('step')
                    continue
                op = 'burst'
            if op == 'burst':
                k = 1 if trickle else min(remaining, rnd.choice([1, 1, 2, 3, remaining]))
                for _ in range(k):
                    self.start_caller()
                remaining -= k
            elif op == 'release':
                label, e = self.held.pop(rnd.randrange(len(self.held)))
                self.ev('release', label[0], label[1])
                e.set()
            elif op == 'abandon':
                self.abandon(rnd.choice(victims))
            elif op == 'nap':
                gevent.sleep(rnd.choice(naps))
            else:
                self.settle()
                continue
            follow = rnd.choice(['none', 'yield', 'settle', 'settle'])
            if follow == 'yield':
                gevent.sleep(0)
            elif follow == 'settle':
                self.settle()
            self.check_invariant('step')
        if self.kill_after is not None and self.kill is None:
            self.start_kill()

    def blocked(self):
        return [c for c in self.callers if not c.done]

    def _stranded(self):
        """Definite (stable) stranding predicates; evaluated only when the loop is idle, no gate holds
        anything and no fault is scripted any more."""
        out = []
        for c in self.blocked():
            if c.request is None:
                continue
            res = c.request[0]
            if res.ready():
                continue
            q = c.pool.queue
            pool = c.pool.pool
            in_queue = any(it[1] is c.env for it in q)
            h = self.holder.get(id(res))
            if in_queue:
                if not pool:
                    out.append((c, 'queued-but-no-client'))
                elif all(getattr(cl, 'idle', False) and not cl.dead for cl in pool):
                    out.append((c, 'queued-while-every-client-sleeps-in-poll'))
                elif all(cl.dead for cl in pool):
                    # (the loop is idle: every link callback of a finished client has run)
                    out.append((c, 'queued-while-only-finished-clients-occupy-the-pool'))
            elif h is None or h.dead:
                out.append((c, 'request-in-nobodys-hands'))
        return out

    def _patience(self, outcome, deadline):
        """HTTP next hop stalled / trickling inside a response body, callers still waiting: the relay's request
        timeout T has to end that.  The harness waits 4 sleeps of 1.25 T *after* the client took the request --
        its sleeps and slimta's gevent.Timeout are timers of the same hub, so the order in which they fire does not
        depend on how slow the machine is -- and then looks: a request taken before the round began and still in
        the hands of a live client has outlived the relay timeout.  Afterwards the stalls are released."""
        T = self.case.get('http_timeout')
        while T and (self.stalls or self.trickles):
            self.settle()
            if not self.blocked() or time.time() > deadline:
                break
            self.epoch += 1
            self.cnt['patience-rounds'] += 1
            for _ in range(4):
                gevent.sleep(T * 1.25)
                self.settle()
            late = []
            for c in self.blocked():
                if c.request is None or c.request[0].ready():
                    continue
                h = self.holder.get(id(c.request[0]))
                if h is not None and not h.dead and self.pop_epoch.get(id(c.request[0]), self.epoch) < self.epoch:
                    late.append((c, {'caller': c.marker, 'unfinished_bodies_on_its_connections': self.pending_body_of(h),
                                     'client_idle_flag': getattr(h, 'idle', None),
                                     'queued_behind': self.queued_total(), 'pool': len(c.pool.pool),
                                     'stalls_held': [l for l, _ in self.stalls], 'events_tail': self.events[-12:]}))
            if late:
                outcome['blocked_past_timeout'] = late
                break
        while self.stalls:
            label, e = self.stalls.pop()
            self.ev('release', label[0], label[1])
            e.set()

    def busy_clients(self):
        """client greenlets that are neither finished nor sleeping in poll()"""
        return [cl for cl in self.clients if not cl.dead and not getattr(cl, 'idle', False)]

    def _drain(self, t0):
        self.faults_on = False
        while self.held:
            label, e = self.held.pop(self.rnd.randrange(len(self.held)))
            self.ev('release', label[0], label[1])
            e.set()
            if self.rnd.random() < 0.5:
                self.settle(1)
        grace = (self.idle or 0.0) * 2 + 0.03
        deadline = time.time() + WATCHDOG
        outcome = {'watchdog': False, 'stranded': [], 'quiesce_watchdog': False, 'blocked_past_timeout': []}
        self._patience(outcome, deadline)
        while True:
            self.settle()
            if not self.blocked():
                break
            st = self._stranded()
            if st:
                # confirm stability: nothing left that could change it once idle timers have elapsed
                gevent.sleep(grace)
                self.settle()
                st2 = self._stranded()
                keep = [(c, why) for c, why in st2 if any(c is c1 and why == w1 for c1, w1 in st)]
                if keep:
                    outcome['stranded'] = keep
                    break
            if time.time() > deadline:
                outcome['watchdog'] = True
                break
            gevent.sleep(0.004)
        # ---- quiescence of the pool itself: the kill() call has returned, no client is busy any more
        # (abandoned requests may still be worked on after the last caller has left)
        while not outcome['watchdog']:
            self.settle()
            if not self.busy_clients() and (self.kill is None or self.kill['done']):
                break
            if time.time() > deadline:
                outcome['quiesce_watchdog'] = True
                break
            gevent.sleep(0.004)
        if self.idle:
            # let every idle timeout elapse, then look at the final state
            gevent.sleep(self.idle * 1.5 + 0.02)
            self.settle()
            while not outcome['watchdog'] and not outcome['quiesce_watchdog']:
                if not self.busy_clients():
                    break
                if time.time() > deadline:
                    outcome['quiesce_watchdog'] = True
                    break
                gevent.sleep(0.004)
                self.settle()
        outcome['open_left'] = len(self.open)
        outcome['pool_left'] = sum(len(p.pool) for p in self.pools)
        outcome['queue_left'] = self.queued_total()
        # ---- the final state, pool by pool (all of it logical: no clock involved)
        final = []
        inpool = set()
        for p in self.pools:
            inpool.update(p.pool)
            final.append({'dest': p._dest, 'queue_left': len(p.queue), 'pool': len(p.pool),
                          'dead_in_pool': sum(1 for cl in p.pool if cl.dead),
                          'sleeping': sum(1 for cl in p.pool if not cl.dead and getattr(cl, 'idle', False))})
        outcome['final'] = final
        outcome['live_outside_pool'] = sum(1 for cl in self.clients if not cl.dead and cl not in inpool)
        outcome['leaked_sockets'] = sorted(n for n in self.open
                                           if self.conn_owner.get(n) is not None and self.conn_owner[n].dead)
        self.check_invariant('final')
        return outcome

    def cleanup(self):
        if self.kill is not None and not self.kill['done']:
            self.kill['greenlet'].kill(block=False)
        for _, e in self.stalls:
            e.set()
        for c in self.callers:
            if c.greenlet is not None and not c.greenlet.dead:
                c.greenlet.kill(block=False)
        for cl in list(self.clients):
            if not cl.dead:
                cl.kill(block=False)
        if self.ds is not None:
            for g in self.ds.greenlets:
                if not g.dead:
                    g.kill(block=False)
        if self.http is not None:
            self.http.stop()
            for g in self.http.greenlets:
                if not g.dead:
                    g.kill(block=False)
        if _STUB.lab is self:
            _STUB.lab = None
        gevent.sleep(0)

    # ------------------------------------------------------------------ helpers for the judge
    def replies_of(self, c):
        """[(where, recipient-or-None, Reply, is_error)] contained in the caller's outcome."""
        out = []
        if c.error is not None:
            out.append(('whole', None, getattr(c.error, 'reply', None), True))
        elif isinstance(c.result, dict):
            for r, v in c.result.items():
                if isinstance(v, RelayError):
                    out.append(('rcpt', r, getattr(v, 'reply', None), True))
                elif isinstance(v, Reply):
                    out.append(('rcpt', r, v, v.is_error()))
                else:
                    out.append(('rcpt', r, None, None))
        elif isinstance(c.result, Reply):
            out.append(('whole', None, c.result, c.result.is_error()))
        else:
            out.append(('whole', None, None, None))
        return out

    def signature(self):
        sig = []
        for e in self.events:
            if e[0] in ('open', 'close', 'txn', 'requeue', 'idle-expiry', 'respawn', 'call', 'done', 'kill', 'killed',
                        'giveup', 'pool'):
                sig.append(e[:2] if e[0] in ('open', 'close', 'txn') else e[:1])
        return tuple(sig)
