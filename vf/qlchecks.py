"""Shared driver for the QueueLab-based checks (C01, C03, C12, C13)."""
import os
import random
import tempfile

from vf import queuelab as L

BACKENDS_ALL = ['dict', 'disk', 'redis', 'cloud', 'cloud-lenient', 'cloud-mq']
# relative cost of one history per backend (dict = 1)
WEIGHT = {'dict': 1, 'cloud': 1, 'cloud-lenient': 1, 'cloud-mq': 1, 'disk': 12, 'redis': 40}

_scratch = [None]


def scratch():
    if _scratch[0] is None:
        base = os.environ.get('VERIF_SCRATCH')
        _scratch[0] = tempfile.mkdtemp(prefix='ql-', dir=base if base and os.path.isdir(base) else None)
    return _scratch[0]


def cleanup():
    import shutil
    if _scratch[0]:
        shutil.rmtree(_scratch[0], ignore_errors=True)
        _scratch[0] = None


def backend_plan(n_dict_equiv, backends=BACKENDS_ALL):
    """How many histories per backend for a budget expressed in dict-history equivalents:
    every backend gets the same share of *time*."""
    share = n_dict_equiv / float(len(backends))
    return {b: max(4, int(share / WEIGHT[b])) for b in backends}


def shape_of(lab):
    """Outcome-sequence shape of a history: per original message the sequence of
    attempt outcome kinds with the per-recipient classes."""
    per = {}
    for e in lab.events:
        if e[1] == 'attempt_end':
            cl = ''.join(sorted(c for c, _ in e[5].values()))
            per.setdefault(e[2], []).append(e[4] + ':' + cl)
    return tuple(sorted((m if not m.startswith('m') else 'm', tuple(v)) for m, v in per.items()))


def interleaving_of(lab):
    return tuple((e[1], e[2] if isinstance(e[2], str) else None) for e in lab.events
                 if e[1] in ('attempt_start', 'attempt_end', 'store', 'enqueue_call', 'enqueue_ret',
                             'flush_call', 'flush_ret', 'announce', 'backoff'))


def run_lab_case(case, R, judge, classify, nontrivial, hits):
    cfg = case['cfg']
    lab = L.run_history(cfg, case['seed'], scratch())
    H = L.History(lab)
    R.eval()
    if H.nosettle or H.final is None:
        R.inconclusive('history did not reach quiescence / final state unreadable (%s)' % cfg.get('backend'))
        return lab, H
    n_att = sum(1 for e in lab.events if e[1] == 'attempt_end')
    R.hit('attempt-outcomes-observed', n_att)
    R.hit('histories-judged')
    R.count('store-calls-observed', sum(1 for e in lab.events if e[1] == 'store'))
    R.count('histories/' + cfg.get('backend', 'dict'))
    R.count('greenlet-crashes-seen', len(lab.crashes))
    undrained = getattr(H, 'timers_left', None) is not None or bool(getattr(H, 'parked_left', 0))
    if undrained:
        R.count('histories-not-fully-drained')
    hits(lab, H, R)
    R.observe('interleaving', interleaving_of(lab))
    R.observe('decision-list', tuple(lab.decisions))
    R.observe('outcome-shape', (cfg.get('backend'), shape_of(lab)))
    nt = nontrivial(lab, H)
    if nt is not None:
        R.nontrivial((cfg.get('backend'), nt, L.cfg_tag(lab)))
    nviol = 0
    for kind, m, detail in judge(lab, H):
        nviol += 1
        mech = classify(lab, H, kind, m, detail)
        R.violation(mech, '%s (message %s, backend %s)' % (kind, m, cfg.get('backend')),
                    {'kind': kind, 'marker': m, 'detail': detail, 'crashes': sorted(set(lab.crashes)),
                     'decisions': lab.decisions[:80],
                     'events_tail': [ev for ev in lab.events if m is None or m in repr(ev)
                                     or ev[1] in ('greenlet_crash', 'store_exc')][-40:]})
    if undrained and not nviol:
        # timers were still pending when the run-down was cut: the bounded-progress clauses decide nothing here
        R.inconclusive('history not fully drained: timers still pending after the run-down (%s)' % cfg.get('backend'))
    if len(R.samples) < 4 and nt is not None:
        R.sample({'cfg': cfg, 'seed': case['seed'], 'decisions': lab.decisions[:25],
                  'events': [list(map(str, ev[:5])) for ev in lab.events[:40]]})
    return lab, H


def marking_rounds_before(lab, H, m, upto_seq=None):
    id = H.m2id.get(m)
    n = 0
    for seq, e in enumerate(lab.events):
        if upto_seq is not None and seq >= upto_seq:
            break
        if e[1] == 'store' and e[2] == 'set_recipients_delivered' and H.sid(e[3]) == H.sid(id):
            n += 1
    return n


def outran_enqueue(lab, H, m):
    """The storage announced the freshly written id through wait() and an attempt of it
    started before write() had even returned the id to Queue.enqueue()."""
    wseq = aseq = None
    for s, e in enumerate(lab.events):
        if e[1] == 'store' and e[2] == 'write' and e[3] == m and wseq is None:
            wseq = s
        if e[1] == 'store_ret' and e[2] == 'write' and e[3] == m:
            wseq = s       # the write's return reached Queue.enqueue only here
        if aseq is None and e[1] == 'attempt_start' and e[2] == m:
            aseq = s
    return wseq is not None and aseq is not None and aseq < wseq


def pool_cycle_deadlock(lab):
    """Direct evidence of the store-pool <-> relay-pool cycle: at the last full quiescence both
    bounded pools have no free slot although nothing is parked by the harness (every slot is
    held by a greenlet that is itself blocked spawning into the other pool)."""
    last = None
    for e in lab.events:
        if e[1] == 'fullq' and len(e) > 2:
            last = e[2]
        elif e[1] == 'final' and len(e) > 5:
            last = e[5]
    return bool(last) and last[0] == 0 and last[1] == 0


def stale_notice(lab, H, id, upto_seq, before_ts=None):
    """The queue was told about `id` more than once before `upto_seq` and at least one telling was
    a wait() notice: its own write (redis / cloud+mq announce own writes back), a start-up load
    entry and wait() notices all count, in any order."""
    tellings = 1 if any(e[1] == 'store' and e[2] == 'write' and H.sid(e[5]) == id for e in lab.events) else 0
    notices = 0
    for s in range(0, upto_seq):
        e = lab.events[s]
        if e[1] == 'store' and e[2] == 'wait':
            n = sum(1 for ts, i in e[3] if H.sid(i) == id)
            tellings += n
            notices += n
        elif e[1] == 'store' and e[2] == 'load_entry' and H.sid(e[3]) == id:
            tellings += 1
    if not (notices >= 1 and tellings >= 2):
        return False
    if lab.native_wait:
        return True          # the backend's own notices arrive asynchronously, at any point
    # The recorded defect needs a second telling of the id to arrive between the scheduler's cut of its entry and
    # the claim in _dequeue. The start-up listing is an asynchronous teller (its entries arrive whenever its
    # greenlet runs); a synthetic notice is handed over at a settled point of the schedule, where that window
    # is open only while the _dequeue greenlet still waits for a store-pool slot, i.e. with a bounded store pool
    # that had no free slot when the notice was handed over.
    told = 0
    pool_at_announce = None
    for s in range(0, upto_seq):
        e = lab.events[s]
        if e[1] == 'announce' and H.sid(e[2]) == id:
            pool_at_announce = e[5] if len(e) > 5 else None
        elif e[1] == 'store' and e[2] == 'write' and H.sid(e[5]) == id:
            told += 1
        elif e[1] == 'store' and e[2] == 'load_entry' and H.sid(e[3]) == id:
            told += 1
            if told >= 2:
                return True
        elif e[1] == 'store' and e[2] == 'wait':
            for ts, i in e[3]:
                if H.sid(i) == id:
                    told += 1
                    if told >= 2 and pool_at_announce and pool_at_announce[0] == 0:
                        return True
    return False
