"""QueueLab: the real slimta.queue.Queue under a virtual clock and a controlled schedule.

Serves C01 (disposition ledger), C03 (settled never re-attempted / one attempt in
flight), C12 (due / early / forgotten / flush) and C13 (bounce multiset).  Each check
supplies a configuration profile and applies its own oracle to the recorded log.

What is real: Queue, the storage backend (DictStorage, DiskStorage+pyaio,
RedisStorage+redis-py against MiniRedis, CloudStorage over MemObjectStore), Bounce,
gevent pools/locks/events.  What is substituted (trusted base): time.time() and the
*timed* Event.wait inside slimta.queue (virtual clock), the relay (scripted outcomes,
parked on gates), and -- for backends that really yield -- optional gates at entry/exit of
storage calls.  Schedule diversity = the seeded order in which parked things are released.
"""
import os
import gc
import heapq
import shutil
import random
import itertools
import traceback
import collections

import gevent
from gevent.event import Event

import slimta.queue as Q
from slimta.queue.dict import DictStorage
from slimta.relay import Relay, TransientRelayError, PermanentRelayError
from slimta.smtp.reply import Reply
from slimta.envelope import Envelope
from slimta.bounce import Bounce

REAL_EVENT = Event
REAL_TIME = Q.time
MARK = 'X-Verif-Msg'


class VTimeout(BaseException):
    pass


class Clock(object):
    def __init__(self, start=1000.0):
        self.now = start
        self.timers = []
        self.seq = itertools.count()

    def next_deadline(self):
        while self.timers and self.timers[0][3]['dead']:
            heapq.heappop(self.timers)
        return self.timers[0][0] if self.timers else None

    def fire_next(self):
        """Advance to the earliest pending timed wait and time it out (exactly what
        gevent's own timeout does: an exception thrown into the waiter by a hub callback)."""
        while self.timers:
            dl, _, g, tok = heapq.heappop(self.timers)
            if tok['dead']:
                continue
            self.now = max(self.now, dl)
            tok['dead'] = True
            gevent.get_hub().loop.run_callback(g.throw, VTimeout())
            return dl
        return None


CURRENT = None   # the Lab whose clock new VEvents / time.time() bind to


class VEvent(REAL_EVENT):
    def __init__(self, *a, **kw):
        super(VEvent, self).__init__(*a, **kw)
        self._vclock = CURRENT.clock if CURRENT else None

    def wait(self, timeout=None):
        if timeout is None or self._vclock is None:
            return super(VEvent, self).wait(timeout)
        if self.is_set():
            return True
        clk = self._vclock
        tok = {'dead': False}
        heapq.heappush(clk.timers, (clk.now + max(timeout, 0), next(clk.seq), gevent.getcurrent(), tok))
        try:
            return super(VEvent, self).wait()
        except VTimeout:
            return False
        finally:
            tok['dead'] = True


class _VTime(object):
    @staticmethod
    def time():
        return CURRENT.clock.now if CURRENT else REAL_TIME.time()


class _DetUUID(object):
    """Deterministic stand-in for the `uuid` module inside the storage backends, the bounce
    renderer and the object-store double: ids decide the order of equal-timestamp timetable
    entries, so they must come from the case's seed for a history to be replayable."""
    import uuid as _real

    @staticmethod
    def uuid4():
        import uuid
        rng = CURRENT.idrnd if CURRENT else random
        return uuid.UUID(int=rng.getrandbits(128), version=4)

    def __getattr__(self, name):
        import uuid
        return getattr(uuid, name)


def install_virtual_time():
    Q.time = _VTime
    Q.Event = VEvent
    import sys
    shim = _DetUUID()
    for name in ('slimta.queue.dict', 'slimta.diskstorage', 'slimta.redisstorage', 'slimta.bounce',
                 'vf.memstore'):
        mod = sys.modules.get(name)
        if mod is not None and hasattr(mod, 'uuid'):
            mod.uuid = shim


def marker(env):
    try:
        return env.headers.get(MARK)
    except Exception:
        return None


def cls_of(v):
    if v is None or isinstance(v, Reply):
        return 'D'
    if isinstance(v, PermanentRelayError):
        return 'P'
    if isinstance(v, TransientRelayError):
        return 'T'
    return 'X'


def reply_of(v):
    r = getattr(v, 'reply', None)
    return (r.code, r.message) if r is not None else None


class Gate(object):
    __slots__ = ('ev', 'kind', 'info', 'payload')

    def __init__(self, kind, info):
        self.ev = REAL_EVENT()
        self.kind = kind
        self.info = info
        self.payload = None


class StoreProbe(Q.QueueStorage):
    """Delegates every call to the real backend and logs call/return/raise."""

    GATED = ('write', 'get', 'set_timestamp', 'increment_attempts', 'set_recipients_delivered',
             'remove')

    def __init__(self, lab, inner, native_wait, synth_wait, gate_p=0.0, fail_writes=()):
        self.lab = lab
        self.inner = inner
        self.native_wait = native_wait
        self.synth_wait = synth_wait
        self.inprog = 0
        self.loading = False
        self.ops = 0
        self.gate_p = gate_p
        self.ann = []
        self.ann_ev = REAL_EVENT()
        self.nwrite = 0
        self.fail_writes = set(fail_writes)

    def _maybe_gate(self, where, name, args, force_name=False):
        lab = self.lab
        only = lab.cfg.get('gate_ops')
        if only is not None and name not in only:
            return False
        if self.gate_p and (force_name or name in self.GATED) and not lab.draining \
                and lab.rnd.random() < self.gate_p:
            g = Gate('store', (where, name, args[0] if (args and name != 'write') else None))
            lab.parked.append(g)
            g.ev.wait()
            return True
        return False

    def _call(self, name, *a):
        lab = self.lab
        self.ops += 1
        if name == 'write':
            self.nwrite += 1
            if self.nwrite in self.fail_writes:
                lab.log('store_exc', name, marker(a[0]), 'QueueError', 'injected')
                raise Q.QueueError('injected write failure')
        self._maybe_gate('pre', name, a)
        self.inprog += 1
        try:
            r = getattr(self.inner, name)(*a)
        except BaseException as ex:
            self.inprog -= 1
            if isinstance(ex, gevent.GreenletExit):
                raise
            lab.log('store_exc', name, marker(a[0]) if name == 'write' else a, type(ex).__name__,
                    str(ex)[:80])
            raise
        self.inprog -= 1
        if name == 'write':
            lab.log('store', 'write', marker(a[0]), a[1], r, list(a[0].recipients), a[0].sender)
        elif name == 'get':
            lab.log('store', 'get', a[0], list(r[0].recipients), r[1])
        elif name == 'set_recipients_delivered':
            lab.log('store', name, a[0], sorted(a[1]) if not isinstance(a[1], list) else list(a[1]),
                    type(a[1]).__name__)
        else:
            lab.log('store', name, a, r)
        if self._maybe_gate('post', name, a):
            # the call took effect earlier; only now does the caller see it return
            lab.log('store_ret', name, marker(a[0]) if name == 'write' else a[0])
        return r

    def write(self, e, t):
        return self._call('write', e, t)

    def set_timestamp(self, i, t):
        return self._call('set_timestamp', i, t)

    def increment_attempts(self, i):
        return self._call('increment_attempts', i)

    def set_recipients_delivered(self, i, x):
        return self._call('set_recipients_delivered', i, x)

    def get(self, i):
        return self._call('get', i)

    def remove(self, i):
        return self._call('remove', i)

    def load(self):
        self.ops += 1
        self.inprog += 1
        self.loading = True
        n = 0
        try:
            for entry in self.inner.load():
                n += 1
                self.lab.log('store', 'load_entry', entry[1], entry[0])
                self.inprog -= 1
                try:
                    yield entry
                    # the listing of a yielding backend is a sequence of round trips: other
                    # greenlets may run -- and finish whole attempts -- between two entries
                    self._maybe_gate('mid', 'load', (entry[1],), force_name=True)
                finally:
                    self.inprog += 1
        except BaseException as ex:
            if not isinstance(ex, (gevent.GreenletExit, GeneratorExit)):
                self.lab.log('store_exc', 'load', (), type(ex).__name__, str(ex)[:80])
            raise
        finally:
            self.inprog -= 1
            self.loading = False
        self.lab.log('store', 'load_done', n)

    def wait(self):
        if self.native_wait:
            self.lab.waiters += 1
            try:
                r = list(self.inner.wait())
            finally:
                self.lab.waiters -= 1
            self.ops += 1
            if r:
                self.lab.log('store', 'wait', r)
            return r
        if not self.synth_wait:
            raise NotImplementedError()
        self.ann_ev.wait()
        self.ann_ev.clear()
        a, self.ann = self.ann, []
        self.ops += 1
        self.lab.log('store', 'wait', a)
        return a

    def announce(self, entries):
        self.ann.extend(entries)
        self.ann_ev.set()


class _FrozenMap(collections.abc.Mapping):
    """A Mapping that is not a dict and not mutable."""

    def __init__(self, d):
        self._d = dict(d)
        self._order = list(d)

    def __getitem__(self, k):
        return self._d[k]

    def __iter__(self):
        return iter(self._order)

    def __len__(self):
        return len(self._d)


class GatedRelay(Relay):
    """Scripted relay: every attempt logs its start, parks on a gate and is released by the
    scheduler with an outcome drawn from the case's profile."""

    def __init__(self, lab):
        super(GatedRelay, self).__init__()
        self.lab = lab
        self.active = 0

    def attempt(self, envelope, attempts):
        lab = self.lab
        m = marker(envelope)
        rc = list(envelope.recipients)
        lab.log('attempt_start', m, rc, attempts)
        self.active += 1
        try:
            g = Gate('attempt', (m, rc, attempts))
            lab.parked.append(g)
            g.ev.wait()
            kind, out = g.payload if g.payload is not None else lab.choose_outcome(m, rc, attempts)
            if kind == 'map':
                # a recipient the mapping does not mention has not been reported at all ('A')
                d = {r: ((cls_of(out[r]), reply_of(out[r])) if r in out else ('A', None)) for r in rc}
            elif kind == 'seq':
                # a sequence is positional: result k belongs to the k-th recipient offered; a recipient
                # beyond the end of a short sequence has not been reported at all ('A'), surplus
                # results of a long one belong to nobody
                d = {}
                for k, r in enumerate(rc):
                    if r in d and d[r][0] != 'A':
                        continue          # duplicate address: the first report stands
                    d[r] = (cls_of(out[k]), reply_of(out[k])) if k < len(out) else ('A', None)
            else:
                d = {r: (cls_of(out), reply_of(out)) for r in rc}
            lab.log('attempt_end', m, rc, kind, d, attempts, (len(out) - len(rc)) if kind == 'seq' else 0)
            if kind in ('temp', 'perm', 'exc'):
                raise out
            return out
        finally:
            self.active -= 1


class RealRelayProbe(Relay):
    """A real slimta relay (StaticSmtpRelay / StaticLmtpRelay against a scripted Downstream, HttpRelay against
    a scripted HTTP next hop, PipeRelay / DovecotLdaRelay / MaildropRelay running a real program)
    behind a probe that records what the relay reported per recipient. No gates: the I/O is real."""

    def __init__(self, lab, kind):
        super(RealRelayProbe, self).__init__()
        from vf.downstream import Downstream
        from slimta.relay.smtp.static import StaticSmtpRelay, StaticLmtpRelay
        self.lab = lab
        self.kind = kind
        self.active = 0
        self.plans = {}
        self.down = None
        self.http = None
        if kind in self.PIPE_KINDS:
            self._init_pipe(kind)
            return
        if kind == 'http':
            self._init_http()
            return
        lmtp = kind == 'lmtp'
        self.down = Downstream(self._script, lmtp=lmtp, pipelining=lab.rnd.random() < 0.5)
        cls = StaticLmtpRelay if lmtp else StaticSmtpRelay
        self.inner = cls('next-hop.test', 25, socket_creator=self.down.creator, ehlo_as='verif.test',
                         connect_timeout=5.0, command_timeout=5.0, data_timeout=5.0,
                         idle_timeout=lab.cfg.get('relay_idle'), pool_size=lab.cfg.get('relay_pool_size'))

    # ---- HTTP relay: the real HttpRelay (with its connection pool) against the scripted HTTP next hop
    # of vf.poollab (own request reader, spoken over socket pairs)
    HTTP_PROFILE = ['ok', 'ok', 'ok', 'r450', 'r550', 'r451', 's404', 's500', 's503', 's302', 'close', 'okclose',
                    'refuse',
                    # reply headers a foreign next hop may send: code without message, bare code, unquoted
                    # message, extra parameters in another order
                    'r550:nomsg', 'r451:nomsg', 'r550:bare', 'r450:bare', 'r451:unquoted', 'r550:extra', 'r450:extra']

    def _init_http(self):
        from vf.poollab import HttpDown
        from slimta.relay.http import HttpRelay
        lab = self.lab
        probe = self

        class _Obs(object):          # the part of a PoolLab that HttpDown talks to
            def script(self, ctx, stage):
                return probe._http_script(ctx, stage)

            def conn_opened(self, *a, **kw):
                pass

            def conn_closed(self, *a, **kw):
                pass

            def __getattr__(self, name):          # any further observer hook of HttpDown: ignore
                return lambda *a, **kw: None

            def ev(self, *a):
                pass
        self.http = HttpDown(_Obs())
        lab._cleanup.append(self.http.stop)
        self.inner = HttpRelay(self.http.url, pool_size=lab.cfg.get('relay_pool_size'), ehlo_as='verif.test',
                               timeout=5.0, idle_timeout=lab.cfg.get('relay_idle'))

    def _http_script(self, ctx, stage):
        lab = self.lab
        rnd = lab.rnd
        prof = lab.cfg.get('http_profile', self.HTTP_PROFILE)
        if stage == 'connect':
            if lab.draining:
                return ('ok',)
            plan = rnd.choice(prof)
            self.plans[('c', ctx['conn'])] = plan
            return ('refuse',) if plan == 'refuse' else ('ok',)
        # one plan per request; the first request of a connection uses the plan drawn at connect time
        plan = self.plans.pop(('c', ctx['conn']), None) or rnd.choice(prof)
        if lab.draining:
            plan = rnd.choice(['ok', 'r550', 'r550:nomsg', 'r550:bare'])
        lab.log('http_plan', ctx.get('marker'), plan)
        if plan[0] == 'r':
            code, _, shape = plan[1:].partition(':')
            return ('reply', code, shape) if shape else ('reply', code)
        if plan[0] == 's':
            return ('status', int(plan[1:]))
        if plan in ('close', 'okclose'):
            return (plan,)
        return ('ok',)

    # ---- pipe relay: a real delivery program (sh) whose exit status / output is planned per recipient
    PIPE_KINDS = ('pipe', 'pipe-one', 'dovecot', 'maildrop')
    PIPE_SCRIPT = (
        'o=$(cat "$2/plan-$1" 2>/dev/null)\n'
        'case "$o" in\n'
        ' temp) echo "4.2.0 mailbox busy"; exit 75;;\n'
        ' temperr) echo "no status here" >&2; exit 1;;\n'
        ' perm) echo "5.1.1 no such user"; exit 67;;\n'
        ' permerr) echo "5.2.2 mailbox full" >&2; exit 1;;\n'
        ' sig) kill -9 $$;;\n'
        ' slow) sleep 0.6; exit 75;;\n'
        ' *) cat >/dev/null; echo "$1" >> "$2/ledger"; exit 0;;\n'
        'esac\n')

    def _init_pipe(self, kind):
        from slimta.relay.pipe import PipeRelay
        lab = self.lab
        self.pdir = os.path.join(lab.scratch, 'pipe%d' % lab.rnd.randrange(1 << 30))
        os.makedirs(self.pdir)
        lab._cleanup.append(lambda d=self.pdir: shutil.rmtree(d, ignore_errors=True))
        args = ['/bin/sh', '-c', self.PIPE_SCRIPT, 'deliver', '{recipient}', self.pdir]
        if kind in ('dovecot', 'maildrop'):
            # the two shipped specialisations (own exit-status conventions) running a stand-in for the
            # delivery agent: an executable that maps the documented argument layout onto PIPE_SCRIPT
            from slimta.relay.pipe import DovecotLdaRelay, MaildropRelay
            core = os.path.join(self.pdir, 'core.sh')
            with open(core, 'w') as f:
                f.write(self.PIPE_SCRIPT)
            prog = os.path.join(self.pdir, 'agent')
            with open(prog, 'w') as f:
                if kind == 'dovecot':       # agent -f <sender> -d <recipient> <pdir>
                    f.write('#!/bin/sh\nexec /bin/sh "$5/core.sh" "$4" "$5"\n')
                else:                       # agent -f <sender> <recipient> <pdir>
                    f.write('#!/bin/sh\nexec /bin/sh "$4/core.sh" "$3" "$4"\n')
            os.chmod(prog, 0o755)
            if kind == 'dovecot':
                self.inner = DovecotLdaRelay(prog, timeout=0.25, extra_args=[self.pdir])
            else:
                self.inner = MaildropRelay(prog, timeout=0.25, extra_args=['{recipient}', self.pdir])
        elif kind == 'pipe-one':
            class PipeOne(PipeRelay):
                per_recipient = False
            self.inner = PipeOne(args, timeout=0.25)
        else:
            self.inner = PipeRelay(args, timeout=0.25)

    def _before(self, envelope, rc):
        if self.kind not in self.PIPE_KINDS:
            return
        lab = self.lab
        prof = lab.cfg.get('pipe_profile', ['ok', 'ok', 'ok', 'temp', 'temp', 'temperr', 'perm', 'permerr', 'sig'])
        slow_p = lab.cfg.get('pipe_slow_p', 0.04)
        for r in rc:
            o = lab.rnd.choice(['ok', 'perm'] if lab.draining else prof)
            if not lab.draining and lab.rnd.random() < slow_p:
                o = 'slow'
            with open(os.path.join(self.pdir, 'plan-' + r), 'w') as f:
                f.write(o)
            lab.log('pipe_plan', marker(envelope), r, o)

    def _script(self, ctx, stage):
        key = (ctx['conn'], ctx['txn'])
        rnd = self.lab.rnd
        # refusals before any transaction: greeting / EHLO / HELO replies are read by the client without an
        # enhanced status code (plain text such as "554 No SMTP service here")
        if stage == 'banner' and not self.lab.draining:
            self.plans[('conn', ctx['conn'])] = rnd.choice(self.lab.cfg.get('greet_profile',
                                                           ['ok'] * 10 + ['banner5', 'banner4', 'ehlo5', 'ehlo4']))
        gp = self.plans.get(('conn', ctx['conn']), 'ok') if not self.lab.draining else 'ok'
        if stage == 'banner' and gp in ('banner5', 'banner4'):
            return ('reply', '554' if gp == 'banner5' else '421', 'No SMTP service here')
        if stage in ('ehlo', 'helo') and gp in ('ehlo5', 'ehlo4'):
            return ('reply', '550' if gp == 'ehlo5' else '450', 'not talking to you')
        if stage == 'mail':
            prof = self.lab.cfg.get('down_profile', ['ok', 'ok', 'mail4', 'mail5', 'rcptmix', 'data4', 'data5',
                                                     'eod4', 'eod5', 'eodmix', 'close'])
            if self.lab.draining:
                prof = ['ok', 'eod5']
            self.plans[key] = rnd.choice(prof)
        plan = self.plans.get(key, 'ok')
        if plan == 'mail4' and stage == 'mail':
            return ('reply', '451')
        if plan == 'mail5' and stage == 'mail':
            return ('reply', '550')
        if plan == 'rcptmix' and stage.startswith('rcpt'):
            return rnd.choice([('ok',), ('reply', '450'), ('reply', '550')])
        if plan == 'data4' and stage == 'data':
            return ('reply', '451')
        if plan == 'data5' and stage == 'data':
            return ('reply', '554')
        if plan == 'eod4' and stage.startswith('eod'):
            return ('reply', '452')
        if plan == 'eod5' and stage.startswith('eod'):
            return ('reply', '552')
        if plan == 'eodmix' and stage.startswith('eod'):
            return rnd.choice([('ok',), ('reply', '450'), ('reply', '550')])
        if plan == 'close' and stage == 'data':
            return ('close',)
        return ('ok',)

    def attempt(self, envelope, attempts):
        lab = self.lab
        m = marker(envelope)
        rc = list(envelope.recipients)
        lab.log('attempt_start', m, rc, attempts)
        self.active += 1
        try:
            try:
                self._before(envelope, rc)
                out = self.inner.attempt(envelope, attempts)
            except (TransientRelayError, PermanentRelayError) as ex:
                kind = 'perm' if isinstance(ex, PermanentRelayError) else 'temp'
                lab.log('attempt_end', m, rc, kind, {r: (cls_of(ex), reply_of(ex)) for r in rc}, attempts)
                raise
            except Exception as ex:
                lab.log('attempt_end', m, rc, 'exc', {r: ('X', None) for r in rc}, attempts)
                raise
            if isinstance(out, dict):
                # a recipient the relay's mapping does not mention has not been reported at all ('A')
                d = {r: ((cls_of(out[r]), reply_of(out[r])) if r in out else ('A', None)) for r in rc}
                lab.log('attempt_end', m, rc, 'map', d, attempts)
            else:
                lab.log('attempt_end', m, rc, 'ok', {r: (cls_of(out), reply_of(out)) for r in rc}, attempts)
            return out
        finally:
            self.active -= 1


class Lab(object):
    """One history. cfg keys (all optional): backend, store_pool, relay_pool, pool_objects (hand the Queue
    gevent Pool objects instead of sizes), backoffs (table ending in None, or 'default' = Queue(backoff=None)),
    profile, rcpt_profile, seq_len_p / map_omit_p (per-recipient results shorter / longer than, or silent about
    part of, the recipient list), script + script_shape (map, map-rev, seq, seq-short, seq-long), gate_p,
    gate_ops (restrict storage gates, e.g. ['load']), synth_wait, nmsg, rcpts, dup_rcpts (an address listed
    twice), rcpt_style, null_sender_p, prepop, prepop_offsets, steps, flush_p, overshoot_p (timers firing late),
    real_relay (smtp, lmtp, http, pipe, pipe-one, dovecot, maildrop), headers_only, body, extra_hdr,
    bounce_tpl (key of BOUNCE_TEMPLATES), reply_style, bounce_none_p, sep_bounce_queue."""

    def __init__(self, cfg, seed, scratch):
        global CURRENT
        self.cfg = cfg
        self.rnd = random.Random(seed)
        self.idrnd = random.Random('ids-%r' % (seed,))
        self.clock = Clock()
        self.events = []
        self.parked = []
        self.draining = False
        self.waiters = 0
        self.crashes = []
        self.decisions = []
        self.scratch = scratch
        self._cleanup = []
        self.bcount = itertools.count()
        self.msgs = collections.OrderedDict()     # marker -> info
        self.flushes = []
        self.closed = False
        CURRENT = self
        install_virtual_time()
        hub = gevent.get_hub()
        hub.print_exception = self._print_exception

    # ---- logging
    def log(self, kind, *a):
        self.events.append((self.clock.now, kind) + a)

    def _print_exception(self, context, t, v, tb):
        if CURRENT is not self or self.draining and self.closed:
            return
        frames = [f for f in traceback.extract_tb(tb) if '/slimta/' in f.filename]
        def fr(f):
            return '%s:%s' % (f.filename.split('/slimta/')[-1].replace('/__init__.py', '').replace('.py', ''), f.name)
        if frames:
            where = fr(frames[0]) if len(frames) == 1 or fr(frames[0]) == fr(frames[-1]) \
                else fr(frames[0]) + '>' + fr(frames[-1])
        else:
            where = '?'
        sig = '%s@%s' % (getattr(t, '__name__', str(t)), where)
        if where.startswith('queue:_dequeue') and issubclass(t, (OSError, KeyError)):
            # a stale timetable entry for a message that has meanwhile been removed: the fetch
            # fails and the entry is dropped -- harmless, not a diagnostic
            self.log('benign_crash', sig)
            return
        if 'unexpected relay exception' in str(v):
            return   # the Queue re-raises an unexpected relay exception by design after scheduling the retry
        self.crashes.append(sig)
        self.log('greenlet_crash', sig, str(v)[:120])

    # ---- construction
    def make_backend(self):
        name = self.cfg.get('backend', 'dict')
        native_wait = False
        if name == 'dict':
            inner = DictStorage()
        elif name == 'disk':
            from slimta.diskstorage import DiskStorage
            d = os.path.join(self.scratch, 'disk%d' % self.rnd.randrange(1 << 30))
            for x in ('e', 'm', 't'):
                os.makedirs(os.path.join(d, x))
            inner = DiskStorage(d + '/e', d + '/m', d + '/t')
            self._cleanup.append(lambda: shutil.rmtree(d, ignore_errors=True))
        elif name == 'redis':
            from slimta.redisstorage import RedisStorage
            mr = get_miniredis()
            n = self.rnd.randrange(1 << 40)
            prefix = ('q%d:' if n % 2 else 'q%d-') % n        # "any string": with and without a trailing colon
            inner = RedisStorage('127.0.0.1', mr.port, prefix=prefix)
            native_wait = True

            def _clean(mr=mr, prefix=prefix, inner=inner):
                for k in [k for k in mr.db if k.startswith(prefix.encode())]:
                    mr.db.pop(k, None)
                mr.db[prefix.encode() + b'queue'] = [b'__stop__']
                mr.list_ev.set()
                try:
                    inner.redis.connection_pool.disconnect()
                except Exception:
                    pass
            self._cleanup.append(_clean)
        elif name in ('cloud', 'cloud-lenient', 'cloud-mq'):
            from slimta.cloudstorage import CloudStorage
            from vf.memstore import MemObjectStore, MemMsgQueue
            mq = MemMsgQueue() if name == 'cloud-mq' else None
            inner = CloudStorage(MemObjectStore(lenient=(name != 'cloud')), mq)
            native_wait = mq is not None
        else:
            raise ValueError(name)
        self.inner = inner
        self.native_wait = native_wait
        return inner

    def build(self):
        cfg = self.cfg
        inner = self.make_backend()
        install_virtual_time()
        yielding = cfg.get('backend', 'dict') != 'dict'
        self.store = StoreProbe(self, inner, self.native_wait,
                                bool(cfg.get('synth_wait')) and not self.native_wait,
                                gate_p=cfg.get('gate_p', 0.0) if yielding else 0.0)
        self.relay = RealRelayProbe(self, cfg['real_relay']) if cfg.get('real_relay') else GatedRelay(self)
        self.backoffs = cfg.get('backoffs', [0, 0, None])
        default_backoff = self.backoffs == 'default'
        if default_backoff:
            self.backoffs = [None]       # what the documented default policy does: never retry

        def backoff(env, attempts):
            tbl = self.backoffs
            w = tbl[min(attempts - 1, len(tbl) - 1)] if attempts >= 1 else tbl[0]
            self.log('backoff', marker(env), attempts, w, list(env.recipients))
            return w

        bounce_cls = Bounce
        if cfg.get('bounce_tpl'):
            # documented customisation: class attributes of a Bounce subclass (text with bare LF or bytes;
            # converted by Bounce itself on first use); the raw templates are put back at the start of
            # every history, so that conversion really runs each time
            ht, ft, rj = BOUNCE_TEMPLATES[cfg['bounce_tpl']]
            bounce_cls = LAB_BOUNCE_CLASSES[cfg['bounce_tpl']]      # module-level: backends pickle the bounce
            bounce_cls.header_template, bounce_cls.footer_template, bounce_cls.recipient_join = ht, ft, rj

        def factory(env, reply):
            orig = marker(env)
            if cfg.get('bounce_none_p') and self.rnd.random() < cfg['bounce_none_p']:
                self.log('bounce_factory', None, orig, list(env.recipients), reply.code, reply.message)
                return None
            b = bounce_cls(env, reply, headers_only=bool(cfg.get('headers_only')))
            bm = 'b%d' % next(self.bcount)
            b.headers[MARK] = bm
            self.log('bounce_factory', bm, orig, list(env.recipients), reply.code, reply.message)
            return b

        self.bounce_q = None
        kw = {}
        lab = self
        if cfg.get('sep_bounce_queue'):
            # a real, separate bounce Queue, constructed (and not yet started) before the delivery
            # queue exactly as an application would; observed by wrapping its enqueue attribute
            self.bstore = StoreProbe(self, DictStorage(), False, False)
            # 'store-only': a bounce queue without relay (documented: nothing is attempted, another
            # process delivers from its storage); its greenlet finishes at once
            b_relay = None if cfg.get('sep_bounce_queue') == 'store-only' else self.relay
            self.bounce_q = Q.Queue(self.bstore, b_relay, backoff=backoff, bounce_factory=factory)
            real_b_enqueue = self.bounce_q.enqueue

            def bounce_enqueue_probe(envelope):
                lab.log_bounce_enqueue(envelope)
                return real_b_enqueue(envelope)
            self.bounce_q.enqueue = bounce_enqueue_probe
            kw['bounce_queue'] = self.bounce_q
        pools = [cfg.get('store_pool'), cfg.get('relay_pool')]
        if cfg.get('pool_objects'):
            # the constructor also takes ready-made gevent pools
            from gevent.pool import Pool
            pools = [Pool(n) if n is not None else None for n in pools]
        self.queue = Q.Queue(self.store, self.relay, backoff=None if default_backoff else backoff,
                             bounce_factory=factory, store_pool=pools[0], relay_pool=pools[1], **kw)
        if default_backoff:
            # the queue's own default policy decides; the probe only writes down what it said
            real_backoff = self.queue.backoff

            def backoff_probe(env, attempts):
                w = real_backoff(env, attempts)
                self.log('backoff', marker(env), attempts, w, list(env.recipients))
                return w
            self.queue.backoff = backoff_probe
        # observe the normal enqueue path of the delivery queue without changing it
        real_enqueue = self.queue.enqueue

        def enqueue_probe(envelope):
            if isinstance(envelope, Bounce):
                if cfg.get('sep_bounce_queue'):
                    lab.log('bounce_misrouted', marker(envelope), 'enqueued on the delivery queue although a '
                            'separate bounce queue is configured')
                else:
                    lab.log_bounce_enqueue(envelope)
            return real_enqueue(envelope)
        self.queue.enqueue = enqueue_probe
        return self.queue

    def log_bounce_enqueue(self, b):
        try:
            flat = b''.join(b.flatten())
        except Exception as ex:   # pragma: no cover
            flat = repr(ex).encode()
        self.log('bounce_enqueued', marker(b), b.sender, list(b.recipients), flat)

    # ---- messages
    def new_envelope(self, k, nrcpt, sender, body=None, ndom=1):
        m = 'm%d' % k
        cfg = self.cfg
        rc = ['r%d.%s@d%d.test' % (i, m, i % ndom) for i in range(nrcpt)]
        if cfg.get('rcpt_style') == 'utf8':
            rc = [(u'r%d.%s.\u00fc\u4e2d@d%d.test' % (i, m, i % ndom)) if i % 2 else r for i, r in enumerate(rc)]
        dup = cfg.get('dup_rcpts')
        if dup and nrcpt >= 2:
            # the same address given twice (RCPT TO repeated; the edges do not de-duplicate)
            rr = random.Random('dup-%r-%d' % (dup, k))
            for _ in range(dup if isinstance(dup, int) else 1):
                rc.insert(rr.randrange(len(rc) + 1), rc[rr.randrange(len(rc))])
        e = Envelope(sender, list(rc))
        if body is None and cfg.get('body_kb'):
            # an envelope larger than any chunk / read size a backend may use (16 KiB AIO chunks, socket reads)
            tail = b' of ' + m.encode() + b' ' + b'x' * 52 + b'\r\n'
            n = int(cfg['body_kb']) * 1024 // (len(tail) + 8) + 1
            body = b''.join(b'line %05d' % i + tail for i in range(n))
        body = body if body is not None else b'body of ' + m.encode() + b'\r\n'
        hdr = (b'From: ' + (sender.encode('utf-8') or b'<>') + b'\r\n' + MARK.encode() + b': ' + m.encode() +
               b'\r\nSubject: test ' + m.encode() + b'\r\n' + (cfg.get('extra_hdr') or b'') + b'\r\n')
        e.parse(hdr + body)
        e.client = {'name': 'client.test', 'ip': '192.0.2.1'}
        if cfg.get('bounce_tpl'):
            e.client['protocol'] = 'ESMTP'
        self.msgs[m] = {'rc': rc, 'sender': sender, 'id': None, 'raw': hdr + body,
                        'flat': b''.join(e.flatten()), 'enqueued': False, 'hdr': e.flatten()[0]}
        return m, e

    def choose_outcome(self, m, rc, attempts):
        rnd = self.rnd
        script = self.cfg.get('script')
        if script and m in script:
            nth = sum(1 for e in self.events if e[1] == 'attempt_end' and e[2] == m)
            rounds = script[m]
            row = rounds[nth] if nth < len(rounds) else ['D'] * len(rc)
            if isinstance(row, str):
                return {'ok': ('ok', None),
                        'temp': ('temp', TransientRelayError('t', Reply('451', '4.0.0 scripted'))),
                        'perm': ('perm', PermanentRelayError('p', Reply('554', '5.0.0 scripted')))}[row]
            def mk(c, i):
                if c == 'D':
                    return None
                if c == 'T':
                    return TransientRelayError('t', Reply('450', '4.1.0 later'))
                return PermanentRelayError('p', Reply('550', '5.1.0 no'))
            kind = self.cfg.get('script_shape', 'map')
            row = list(row) + ['D'] * (len(rc) - len(row))
            if kind == 'seq-short' and nth < len(rounds):
                # one result fewer than recipients (the closing round is complete, so the history ends)
                return 'seq', [mk(c, i) for i, c in enumerate(row[:max(1, len(rc) - 1)])]
            if kind == 'seq-long':
                extra = [None, TransientRelayError('t', Reply('450', '4.1.0 surplus')),
                         PermanentRelayError('p', Reply('550', '5.1.0 surplus'))]
                return 'seq', [mk(c, i) for i, c in enumerate(row[:len(rc)])] + \
                    [extra[(nth + j) % 3] for j in range(1 + nth % 2)]
            if kind == 'seq':
                return 'seq', [mk(c, i) for i, c in enumerate(row[:len(rc)])]
            items = [(r, mk(row[i], i)) for i, r in enumerate(rc)]
            if kind == 'map-rev':
                # a relay may build its mapping in any order (grouped by domain, by completion ...)
                items.reverse()
            return 'map', collections.OrderedDict(items)
        prof = self.cfg.get('profile', ['ok', 'temp', 'perm', 'map'])
        if m is not None and m.startswith('b'):
            prof = self.cfg.get('bounce_profile', ['ok', 'ok', 'perm', 'temp'])
        kind = rnd.choice(prof)
        if kind == 'seq' and len(set(rc)) < len(rc):
            # an address listed twice: positional results could contradict each other for one address, and
            # which of them "the relay reported for the recipient" would be undefined -- use a mapping
            kind = 'map'
        nrep = self.cfg.get('nreplies', 2)
        # reply texts a next hop may well send: template-looking braces, non-ASCII
        hostile = u' {recipients} {0} {boundary} caf\u00e9 <x>' if self.cfg.get('reply_style') == 'hostile' else ''

        def one():
            z = rnd.choice(self.cfg.get('rcpt_profile', ['ok', 'reply', 'temp', 'temp', 'perm']))
            if z == 'ok':
                return None
            if z == 'reply':
                return Reply('250', '2.0.0 fine')
            # distinct replies may differ in the enhanced status code, in the text only, or carry no
            # enhanced status code at all
            var = rnd.choice(['esc', 'esc', 'text', 'noesc'])
            k = rnd.randrange(nrep)
            if z == 'temp':
                msg = {'esc': '4.1.%d later' % k, 'text': '4.1.0 later, reason %d' % k, 'noesc': 'later (%d)' % k}[var]
                return TransientRelayError('t', Reply('450', msg + hostile))
            msg = {'esc': '5.1.%d no such user' % k, 'text': '5.1.1 <user%d>: no such user' % k,
                   'noesc': 'no such user %d' % k}[var]
            return PermanentRelayError('p', Reply('550', msg + hostile))
        if kind == 'ok':
            return kind, None
        if kind == 'reply':
            return kind, Reply('250', '2.0.0 whole ok')
        if kind == 'temp':
            return kind, TransientRelayError('t', Reply('451', '4.0.0 whole-message transient' + hostile))
        if kind == 'perm':
            return kind, PermanentRelayError('p', Reply('554', '5.0.0 whole-message permanent' + hostile))
        if kind == 'exc':
            return kind, RuntimeError('unexpected relay exception')
        if kind == 'map':
            items = [(r, one()) for r in rc]
            if rnd.random() < 0.5:
                rnd.shuffle(items)      # mapping order need not follow envelope.recipients
            p = self.cfg.get('map_omit_p', 0)
            if p and len(items) > 1 and rnd.random() < p:
                del items[rnd.randrange(1, len(items)):]     # says nothing about some recipients
            d = collections.OrderedDict(items)
            # "a dictionary" in the Relay.attempt contract is any mapping: a relay may hand out a read-only view
            # or its own Mapping class; a sequence may be a tuple
            v = rnd.random()
            if v < 0.15:
                import types
                return kind, types.MappingProxyType(d)
            if v < 0.25:
                return kind, _FrozenMap(d)
            return kind, d
        if kind == 'seq':
            out = [one() for r in rc]
            p = self.cfg.get('seq_len_p', 0)
            if p and rnd.random() < p:
                if rnd.random() < 0.5 and len(out) > 1:
                    out = out[:rnd.randrange(1, len(out))]          # shorter than the recipient list
                else:
                    out = out + [one() for _ in range(rnd.randint(1, 2))]   # longer
            return kind, (tuple(out) if rnd.random() < 0.25 else out)
        raise ValueError(kind)

    # ---- quiescence
    def settle(self, limit=40000):
        stable = 0
        last = None
        st = self.store
        for n in range(limit):
            gevent.idle()
            sig = (st.ops, len(self.events), len(self.parked),
                   getattr(getattr(self, 'bstore', None), 'ops', 0))
            busy = st.inprog > 0 or (isinstance(self.relay, RealRelayProbe) and self.relay.active > 0)
            if not busy and sig == last:
                stable += 1
            else:
                stable = 0
            last = sig
            if stable >= 4:
                return True
            if busy:
                gevent.sleep(0.0003)
        return False

    def full_quiescence(self):
        return not self.parked

    def pools_free(self):
        """(free store-pool slots, free relay-pool slots); None = unbounded."""
        out = []
        for name in ('store_pool', 'relay_pool'):
            p = getattr(self.queue, name, None)
            out.append(p.free_count() if p is not None else None)
        return tuple(out)

    # ---- teardown
    def close(self):
        global CURRENT
        self.draining = True
        self.closed = True
        try:
            self.queue.kill()
            if self.bounce_q is not None:
                self.bounce_q.kill()
        except Exception:
            pass
        if isinstance(getattr(self, 'relay', None), RealRelayProbe) and \
                (self.relay.down is not None or self.relay.http is not None):
            if self.relay.down is not None:
                self.relay.down.kill()
            for client in list(getattr(self.relay.inner, 'pool', ())):   # (RelayPool.kill() itself mutates the set it iterates)
                try:
                    client.kill(block=False)
                except Exception:
                    pass
            if self.relay.http is not None:
                for g in self.relay.http.greenlets:
                    g.kill(block=False)
        for g in self.parked:
            g.payload = ('ok', None)
        self.parked = []
        if CURRENT is self:
            CURRENT = None
        for c in self._cleanup:
            try:
                c()
            except Exception:
                pass
        if self.cfg.get('backend') == 'redis':
            for _ in range(3):
                gevent.sleep(0.001)


class BounceQueueProbe(object):
    """Stands in front of a separate real bounce Queue: records what is handed to its
    enqueue()."""

    def __init__(self, lab, real):
        self.lab = lab
        self.real = real

    def enqueue(self, envelope):
        self.lab.log_bounce_enqueue(envelope)
        return self.real.enqueue(envelope)


_MR = None


def get_miniredis():
    global _MR
    if _MR is None:
        from vf.miniredis import MiniRedis
        _MR = MiniRedis()
    return _MR


_NCASES = [0]


def housekeeping():
    _NCASES[0] += 1
    if _NCASES[0] % 50 == 0:
        gc.collect()


# =====================================================================================
# scheduler
# =====================================================================================

def run_history(cfg, seed, scratch):
    """Execute one seeded history; returns the Lab (events in lab.events)."""
    lab = Lab(cfg, seed, scratch)
    try:
        _run(lab)
    finally:
        lab.close()
        housekeeping()
    return lab


def _spawn_enqueue(lab, m, e):
    def go():
        lab.log('enqueue_call', m)
        try:
            res = lab.queue.enqueue(e)
        except BaseException as ex:
            if isinstance(ex, gevent.GreenletExit):
                raise
            lab.log('enqueue_ret', m, None, type(ex).__name__ + ': ' + str(ex)[:60])
            return
        env, id = res[0]
        if isinstance(id, BaseException):
            lab.log('enqueue_ret', m, None, type(id).__name__)
        else:
            lab.msgs[m]['id'] = id
            lab.msgs[m]['enqueued'] = True
            lab.log('enqueue_ret', m, id, None)
    return gevent.spawn(go)


def _spawn_flush(lab, n):
    def go():
        # 4th field: the ids that have an entry in the queue's own timetable right now (diagnostic reading of
        # Queue.queued, used only to tell "waiting" from "listed by the storage but not yet taken in")
        try:
            tt = sorted(set(i.decode() if isinstance(i, bytes) else i for _, i in lab.queue.queued))
        except Exception:
            tt = None
        lab.log('flush_call', n, lab.full_quiescence(), tt)
        lab.queue.flush()
        lab.log('flush_ret', n)
    return gevent.spawn(go)


def _release(lab, idx, drain_final=False):
    g = lab.parked.pop(idx)
    if g.kind == 'attempt':
        m, rc, attempts = g.info
        if drain_final:
            g.payload = lab.rnd.choice([('ok', None),
                                        ('perm', PermanentRelayError('p', Reply('554', '5.0.0 final')))])
        else:
            g.payload = lab.choose_outcome(m, rc, attempts)
        lab.decisions.append(('rel-attempt', m, g.payload[0]))
    else:
        lab.decisions.append(('rel-store',) + tuple(g.info[:2]))
    g.ev.set()


def _last_ts(lab, id):
    ts = None
    for ev in lab.events:
        if ev[1] == 'store' and ev[2] == 'write' and ev[5] == id:
            ts = ev[4]
        elif ev[1] == 'store' and ev[2] == 'set_timestamp' and ev[3][0] == id:
            ts = ev[3][1]
        elif ev[1] == 'prepop' and ev[3] == id:
            ts = ev[4]
    return ts


def _run(lab):
    cfg, rnd, clock = lab.cfg, lab.rnd, lab.clock
    q = lab.build()
    nmsg = 0
    # messages left in storage by an earlier process
    for k in range(cfg.get('prepop', 0)):
        m, e = lab.new_envelope(nmsg, rnd.randint(*cfg.get('rcpts', (1, 3))),
                                '' if rnd.random() < cfg.get('null_sender_p', 0.1) else 's%d@src.test' % nmsg)
        nmsg += 1
        ts = clock.now + rnd.choice(cfg.get('prepop_offsets', [-100.0, -1.0, 0.0, 5.0, 5.0, 10.0]))
        id = lab.inner.write(e, ts)
        lab.msgs[m].update(id=id, enqueued=True, prepop=True)
        lab.log('prepop', m, id, ts)
    q.start()
    if lab.bounce_q is not None:
        lab.bounce_q.start()
    if not cfg.get('race_start'):
        if not lab.settle():
            lab.log('nosettle', 'start')
            return
    nflush = 0
    total = cfg.get('nmsg', 2)
    steps = cfg.get('steps', 30)
    for step in range(steps):
        acts = []
        if lab.parked:
            acts += ['release'] * 4
        # 'hold_clock_in_load': no virtual time passes while the start-up listing streams (a listing takes
        # seconds, backoffs take minutes: by far the most common real schedule)
        hold = cfg.get('hold_clock_in_load') and lab.store.loading
        if clock.next_deadline() is not None and not hold:
            acts += ['advance'] * 2 + ['delta']
            if cfg.get('overshoot_p') and rnd.random() < cfg['overshoot_p']:
                acts += ['overshoot'] * 2
        if nmsg < total + cfg.get('prepop', 0):
            acts += ['enqueue'] * 2
        if cfg.get('flush_p') and rnd.random() < cfg['flush_p']:
            acts += ['flush'] * 2
        known = [v['id'] for v in lab.msgs.values() if v['id'] is not None]
        if lab.store.synth_wait and known and cfg.get('announce_p', 0.3) > rnd.random():
            acts += ['announce']
        if (lab.store.synth_wait or lab.native_wait) and cfg.get('extwrite_p', 0) > rnd.random() \
                and nmsg < total + cfg.get('prepop', 0):
            acts += ['extwrite']
        if not acts:
            # nothing to decide yet (e.g. start() racing the first step with nothing enqueued): let the
            # queue run until it is quiet, then look again; only a quiet queue with nothing to do ends the run
            if not lab.settle():
                lab.log('nosettle', step)
                return
            if lab.parked or clock.next_deadline() is not None:
                continue
            break
        a = rnd.choice(acts)
        if a == 'release':
            _release(lab, rnd.randrange(len(lab.parked)))
        elif a == 'advance':
            dl = clock.fire_next()
            lab.decisions.append(('advance', dl))
        elif a == 'overshoot':
            # a timer that fires late (loaded machine, suspended process): the clock is already past the
            # deadline -- possibly past the due times of other entries as well -- when the waiter wakes
            dl = clock.next_deadline()
            clock.now = max(clock.now, dl) + rnd.choice([0.001, 0.5, 2.0, 7.0, 30.0])
            clock.fire_next()
            lab.decisions.append(('overshoot', dl, clock.now))
        elif a == 'delta':
            dl = clock.next_deadline()
            if dl is not None and dl > clock.now:
                t = clock.now + (dl - clock.now) * rnd.choice([0.25, 0.5, 0.999])
                if t < dl:      # never *reach* a deadline without firing its timer (float rounding can)
                    clock.now = t
            lab.decisions.append(('delta', clock.now))
        elif a == 'enqueue':
            m, e = lab.new_envelope(nmsg, rnd.randint(*cfg.get('rcpts', (1, 3))),
                                    '' if rnd.random() < cfg.get('null_sender_p', 0.1)
                                    else 's%d@src.test' % nmsg,
                                    body=cfg.get('body'), ndom=cfg.get('ndom', 1))
            nmsg += 1
            _spawn_enqueue(lab, m, e)
            lab.decisions.append(('enqueue', m))
        elif a == 'flush':
            nflush += 1
            lab.flushes.append(nflush)
            _spawn_flush(lab, nflush)
            lab.decisions.append(('flush', nflush))
        elif a == 'announce':
            id = rnd.choice(known)
            ts = _last_ts(lab, id)
            if ts is not None:
                lab.log('announce', id, ts, 'dup', lab.pools_free())
                lab.store.announce([(ts, id)])
                lab.decisions.append(('announce', id))
        elif a == 'extwrite':
            m, e = lab.new_envelope(nmsg, rnd.randint(*cfg.get('rcpts', (1, 3))), 's%d@src.test' % nmsg)
            nmsg += 1
            ts = clock.now + rnd.choice([0.0, 0.0, 3.0])
            id = lab.inner.write(e, ts)
            lab.msgs[m].update(id=id, enqueued=True, ext=True)
            lab.log('prepop', m, id, ts)
            if lab.store.synth_wait:
                lab.log('announce', id, ts, 'ext', lab.pools_free())
                lab.store.announce([(ts, id)])
            lab.decisions.append(('extwrite', m))
        if not lab.settle():
            lab.log('nosettle', step)
            return
        if lab.full_quiescence():
            lab.log('fullq', lab.pools_free())
    # ---- end game: release everything, run every timer down
    lab.draining = True
    lab.log('drain_begin')
    finite = lab.backoffs[-1] is None
    idle = 0
    for rnd_i in range(cfg.get('drain_rounds', 600)):
        nev = len(lab.events)
        if lab.parked:
            _release(lab, 0, drain_final=(rnd_i > 120 or not finite))
        else:
            dl = clock.next_deadline()
            if dl is None:
                break
            if idle >= 3:
                # timer after timer fires without anything happening (a scheduler that re-reads the clock
                # every so often while the next due time is far away): let the timers fire later and later
                # (a suspended process does that) instead of stepping through the whole wait
                clock.now = max(clock.now, dl) + float(min(2 ** (idle + 3), 2 ** 41))
            clock.fire_next()
        if not lab.settle():
            lab.log('nosettle', 'drain')
            return
        if lab.full_quiescence():
            lab.log('fullq', lab.pools_free())
        idle = idle + 1 if len(lab.events) == nev + (1 if lab.full_quiescence() else 0) else 0
    final = {}
    try:
        for ts, i in list(lab.inner.load()):
            i2 = i.decode() if isinstance(i, bytes) else i
            try:
                e, a = lab.inner.get(i)
                final[i2] = list(e.recipients)
            except Exception as ex:
                final[i2] = ['<get raised %s>' % type(ex).__name__]
    except Exception as ex:
        lab.log('final_load_exc', type(ex).__name__, str(ex)[:80])
        final = None
    lab.log('final', final, clock.next_deadline(), len(lab.parked), lab.pools_free())


# =====================================================================================
# judges (offline, over lab.events)
# =====================================================================================

def crash_tag(lab):
    sigs = sorted(set(lab.crashes))
    return '+'.join(sigs) if sigs else 'no-crash'


def cfg_tag(lab):
    c = lab.cfg
    return 'sp=%s,rp=%s' % ('N' if c.get('store_pool') is None else 'bounded',
                            'N' if c.get('relay_pool') is None else 'bounded')


class History(object):
    """Indexes the event log once for all judges."""

    def __init__(self, lab):
        self.lab = lab
        ev = lab.events
        self.settled = False
        self.final = None
        self.m2id = {}
        self.id2m = {}
        self.accepted = collections.OrderedDict()   # original (non-bounce) accepted markers
        for m, info in lab.msgs.items():
            if info['id'] is not None:
                self.m2id[m] = info['id']
                self.id2m[info['id']] = m
                self.accepted[m] = info
        for e in ev:
            if e[1] == 'store' and e[2] == 'write' and e[3] is not None:
                self.m2id.setdefault(e[3], e[5])
                self.id2m.setdefault(e[5], e[3])
            elif e[1] == 'final':
                self.final = e[2]
                self.settled = True
                self.timers_left = e[3]
                self.parked_left = e[4]
        self.nosettle = any(e[1] == 'nosettle' for e in ev)

    def sid(self, i):
        return i.decode() if isinstance(i, bytes) else i


def judge_c03(lab, H):
    """settled recipients never re-attempted; attempts of one message never overlap."""
    out = []
    settled = collections.defaultdict(dict)
    active = {}
    rounds = collections.Counter()
    for e in lab.events:
        if e[1] == 'attempt_start':
            m, rc = e[2], e[3]
            if m in active:
                out.append(('overlap', m, {'first': active[m], 'second': e}))
            active[m] = e
            rounds[m] += 1
            bad = [r for r in rc if r in settled[m]]
            if bad:
                out.append(('resend', m, {'recipients': bad, 'settled_as': {r: settled[m][r] for r in bad},
                                          'attempt': e, 'round': rounds[m]}))
        elif e[1] == 'attempt_end':
            m = e[2]
            active.pop(m, None)
            for r, (c, rep) in e[5].items():
                if c in 'DP':
                    settled[m][r] = c
    return out


def judge_c01(lab, H):
    """disposition ledger at the end of the drained history."""
    out = []
    if H.final is None:
        return out
    delivered = collections.defaultdict(set)
    permfail = collections.defaultdict(set)
    exhausted = collections.defaultdict(set)
    bounced = collections.defaultdict(set)
    suppressed = collections.defaultdict(set)
    offered = collections.defaultdict(set)
    benq = set()
    for e in lab.events:
        if e[1] == 'attempt_end':
            m = e[2]
            for r, (c, rep) in e[5].items():
                offered[m].add(r)
                if c == 'D':
                    delivered[m].add(r)
                elif c == 'P':
                    permfail[m].add(r)
        elif e[1] == 'backoff' and e[4] is None:
            exhausted[e[2]].update(e[5])
        elif e[1] == 'bounce_enqueued':
            benq.add(e[2])
    for e in lab.events:
        if e[1] == 'bounce_factory':
            bm, orig, rc = e[2], e[3], e[4]
            if bm is None:
                suppressed[orig].update(rc)
            elif bm in benq:
                bounced[orig].update(rc)
    for m, info in H.accepted.items():
        id = H.sid(info['id'])
        for r in info['rc']:
            if r in delivered[m]:
                continue
            failed = r in permfail[m] or r in exhausted[m]
            if failed:
                if not info['sender'] or r in bounced[m] or r in suppressed[m]:
                    continue
                out.append(('failed-not-bounced', m, {'recipient': r, 'sender': info['sender'],
                                                      'perm': r in permfail[m], 'exhausted': r in exhausted[m]}))
                continue
            if id in H.final and r in H.final[id]:
                if H.timers_left is not None or H.parked_left:
                    continue      # the history was cut before every timer had been run down: not decidable
                out.append(('stranded', m, {'recipient': r, 'stored_recipients': H.final[id],
                                            'note': 'still stored, but no timer pending, nothing in flight: '
                                                    'will never be retried by this queue'}))
            elif id in H.final:
                out.append(('dropped-from-stored-message', m, {'recipient': r, 'stored_recipients': H.final[id]}))
            else:
                out.append(('lost', m, {'recipient': r, 'ever_offered': r in offered[m]}))
    return out


def judge_c12(lab, H):
    out = []
    due = {}
    due_seq = {}
    stored = set()
    known = set()
    told = set()
    last_attempt_seq = {}
    active = set()
    flush_calls = {}
    flush_rets = set()
    last_flush_seq = -1
    waiting_at_flush = {}
    all_flush_calls = {}
    flush_ret_seq = {}
    told_seq = {}
    attempted = set()
    loading = False
    # store gates other than those between two load() entries can hold a finished attempt's re-queueing
    # back, so "waiting" is only certain at full quiescence -- unless the history gates load() alone
    only_load_gated = lab.cfg.get('gate_ops') is not None and set(lab.cfg['gate_ops']) <= {'load'}
    for seq, e in enumerate(lab.events):
        if e[1] == 'flush_ret':
            flush_ret_seq[e[2]] = seq

    def tell(id, seq):
        told.add(id)
        told_seq.setdefault(id, seq)
    for seq, e in enumerate(lab.events):
        t, k = e[0], e[1]
        if k == 'prepop':
            id = H.sid(e[3])
            due[id] = e[4]
            due_seq[id] = seq
            stored.add(id)
            if not lab.msgs[e[2]].get('ext'):
                known.add(id)
        elif k == 'store' and e[2] == 'write':
            id = H.sid(e[5])
            due[id] = e[4]
            due_seq[id] = seq
            stored.add(id)
            known.add(id)
            tell(id, seq)
        elif k == 'store' and e[2] == 'set_timestamp':
            id = H.sid(e[3][0])
            due[id] = e[3][1]
            due_seq[id] = seq
        elif k == 'store' and e[2] == 'remove':
            stored.discard(H.sid(e[3][0]))
        elif k == 'store' and e[2] == 'wait':
            for ts, i in e[3]:
                known.add(H.sid(i))
                tell(H.sid(i), seq)
        elif k == 'store' and e[2] == 'load_entry':
            loading = True
            known.add(H.sid(e[3]))
            tell(H.sid(e[3]), seq)
        elif k == 'store' and e[2] == 'load_done':
            loading = False
        elif k == 'attempt_start':
            m = e[2]
            id = H.sid(H.m2id.get(m)) if H.m2id.get(m) is not None else None
            active.add(m)
            if id is not None:
                last_attempt_seq[id] = seq
                attempted.add(id)
                if id in due and t < due[id]:
                    # excused by any flush whose execution may have followed the setting of
                    # the due time: called before this attempt and returned (if at all) after it --
                    # and after the queue was first told about the id at all (a flush that had returned
                    # before a load() entry / wait() notice reached the queue cannot have dispatched it)
                    excused = any(c < seq and flush_ret_seq.get(n, 1 << 60) > max(due_seq[id], told_seq.get(id, -1))
                                  for n, (c, fq) in all_flush_calls.items())
                    if not excused:
                        out.append(('early', m, {'attempt_at': t, 'due': due[id], 'attempt': e}))
        elif k == 'attempt_end':
            active.discard(e[2])
        elif k == 'flush_call':
            flush_calls[e[2]] = (seq, e[3])
            all_flush_calls[e[2]] = (seq, e[3])
            last_flush_seq = seq
            if e[3]:
                # "waiting" = the queue has actually been told about the id by now (its own
                # write, a start-up load entry, a wait() announcement), not merely stored
                waiting_at_flush[e[2]] = [i for i in stored & told
                                          if H.id2m.get(i) not in active]
            elif loading and only_load_gated:
                # flush() while load() is still streaming (the harness is holding the listing between two
                # entries): an id the listing has already handed over and that has never been attempted
                # is in the timetable (or already being dispatched) for certain
                tt = set(e[4]) if len(e) > 4 and e[4] is not None else set()
                waiting_at_flush[e[2]] = [i for i in stored & told & tt
                                          if H.id2m.get(i) not in active and i not in attempted]
        elif k == 'flush_ret':
            flush_rets.add(e[2])
        elif k == 'fullq':
            for id in sorted(stored & known):
                if due.get(id) is not None and due[id] <= t and last_attempt_seq.get(id, -1) < due_seq[id]:
                    out.append(('due-not-attempted', H.id2m.get(id), {'id': id, 'due': due[id], 'now': t,
                                                                      'during_drain': lab.draining}))
            for n, (fseq, fq) in flush_calls.items():
                if n not in flush_rets:
                    out.append(('flush-blocked', None, {'flush': n, 'called_at_seq': fseq}))
                for id in waiting_at_flush.pop(n, []):
                    if id in stored and last_attempt_seq.get(id, -1) < fseq:
                        out.append(('flush-did-not-attempt', H.id2m.get(id), {'id': id, 'flush': n}))
            flush_calls = {n: v for n, v in flush_calls.items() if n not in flush_rets}
            # report each stuck item once
            for o in out:
                if o[0] in ('due-not-attempted',):
                    due_seq[o[2]['id']] = -2
                    last_attempt_seq[o[2]['id']] = -1
    if H.final is not None and lab.backoffs[-1] is None and H.timers_left is None and not H.parked_left:
        for id in sorted(H.final):
            if id in known:
                out.append(('forgotten', H.id2m.get(id),
                            {'id': id, 'stored_recipients': H.final[id],
                             'note': 'drained: no timer pending, nothing in flight, still stored'}))
    # the due time the queue writes is the one the backoff policy chose: (instant of the decision) + wait, where
    # the instant may be read anywhere between the end of the failed attempt and the set_timestamp call
    last_end_t = {}
    pending = {}
    for seq, e in enumerate(lab.events):
        if e[1] == 'attempt_end':
            last_end_t[e[2]] = e[0]
        elif e[1] == 'backoff' and e[4] is not None and e[2] in H.m2id and e[2] in last_end_t:
            pending[H.sid(H.m2id[e[2]])] = (e[2], e[4], last_end_t[e[2]])
        elif e[1] == 'store' and e[2] == 'set_timestamp' and H.sid(e[3][0]) in pending:
            m, w, t_end = pending.pop(H.sid(e[3][0]))
            when, t_set = e[3][1], e[0]
            tol = 8 * abs(when) * 2.0 ** -52
            if when < t_end + w - tol:
                out.append(('due-earlier-than-backoff-choice', m, {'wait': w, 'attempt_ended_at': t_end,
                                                                   'due_written': when, 'written_at': t_set}))
            elif when > t_set + w + tol and when > t_set:
                out.append(('due-later-than-backoff-choice', m, {'wait': w, 'attempt_ended_at': t_end,
                                                                 'due_written': when, 'written_at': t_set}))
    # de-duplicate (kind, marker)
    seen, uniq = set(), []
    for o in out:
        key = (o[0], o[1], o[2].get('flush'))
        if key not in seen:
            seen.add(key)
            uniq.append(o)
    return uniq


def _expected_bounces(lab, H):
    """Reference grouping from the probe's own outcome log -> multiset of
    (orig marker, frozenset(recipients), code, message)."""
    exp = collections.Counter()
    last_end = {}
    for e in lab.events:
        if e[1] == 'attempt_end':
            m, rc, kind, d = e[2], e[3], e[4], e[5]
            last_end[m] = e
            sender = lab.msgs[m]['sender'] if m in lab.msgs else ''
            if not sender:
                continue
            if kind in ('map', 'seq'):
                groups = collections.OrderedDict()
                for r in rc:
                    c, rep = d.get(r, ('A', None))
                    if c == 'P':
                        groups.setdefault(rep, []).append(r)
                for rep, rs in groups.items():
                    exp[(m, frozenset(rs), rep[0], rep[1])] += 1
            elif kind == 'perm':
                rep = d[rc[0]][1]
                exp[(m, frozenset(rc), rep[0], rep[1])] += 1
        elif e[1] == 'backoff' and e[4] is None:
            m = e[2]
            sender = lab.msgs[m]['sender'] if m in lab.msgs else ''
            if not sender:
                continue
            le = last_end.get(m)
            if le is None:
                continue
            kind, d = le[4], le[5]
            if kind in ('map', 'seq'):
                groups = collections.OrderedDict()
                unreported = []
                for r in le[3]:
                    c, rep = d.get(r, ('A', None))
                    if c == 'T':
                        groups.setdefault(rep, []).append(r)
                    elif c == 'A' and r not in unreported:
                        unreported.append(r)
                for rep, rs in groups.items():
                    exp[(m, frozenset(rs), rep[0], ('prefix', rep[1]))] += 1
                if unreported:
                    # recipients the last result said nothing about stay outstanding under a reply the queue makes
                    # up itself (one reply for all of them): its wording is the queue's own, any 450 text
                    exp[(m, frozenset(unreported), '450', None)] += 1
            elif kind == 'temp':
                rep = d[le[3][0]][1]
                exp[(m, frozenset(le[3]), rep[0], ('prefix', rep[1]))] += 1
            elif kind == 'exc':
                exp[(m, frozenset(le[3]), '450', None)] += 1
    return exp


# custom bounce templates (class attributes of slimta.bounce.Bounce as documented): text with bare LF or
# bytes, documented keys, one unknown key (removed), a custom recipient_join
BOUNCE_TEMPLATES = {
    'text': (u"""From: postmaster@verif.test
To: {sender}
Subject: failed {code}
X-Unknown: [{nosuchkey}]

Failed: {recipients}
Because: {code} {message}
From {client_name} [{client_ip}] via {protocol}
--- original ({boundary}) ---
""", u"\n--- end {boundary} {code} ---\n", ', '),
    'bytes': (b"From: MAILER-DAEMON\r\nTo: {sender}\r\nSubject: Returned mail\r\n\r\n"
              b"{recipients}\r\n\r\n[{code}] {message} {}{ {not a key} }{0}{17}\r\n==={boundary}\r\n",
              b"\r\n==={boundary}===\r\n{sender}\r\n", '\r\n'),
    'nofooter': (u"To: {sender}\nSubject: x\n\n{recipients}|{code} {message}|\n", b"", ';'),
}


class LabBounceText(Bounce):
    pass


class LabBounceBytes(Bounce):
    pass


class LabBounceNoFooter(Bounce):
    pass


LAB_BOUNCE_CLASSES = {'text': LabBounceText, 'bytes': LabBounceBytes, 'nofooter': LabBounceNoFooter}


def _ref_render(tpl, table):
    """Independent rendering of a template as documented: {key} pairs of word characters are replaced,
    unknown keys removed, everything else literal; bare LF becomes CRLF."""
    import re
    if not isinstance(tpl, bytes):
        tpl = tpl.encode('ascii')
    tpl = re.sub(br'\r?\n', b'\r\n', tpl)
    return re.sub(br'\{(\w+)\}', lambda mo: table.get(mo.group(1).decode('ascii'), b''), tpl)


def _bounce_content(lab, info, frc, code, msg, flat):
    """Judge the bytes of one bounce against what it has to say. Returns [(kind, detail)]."""
    import re
    out = []
    ho = bool(lab.cfg.get('headers_only'))
    want = info['hdr'] if ho else info['flat']
    head, sep, body = flat.partition(b'\r\n\r\n')
    reply_b = (code + ' ' + msg).encode('utf-8', 'replace')

    def names(r):
        return (r.encode('utf-8'), r.encode('ascii', 'xmlcharrefreplace'))
    tpl = lab.cfg.get('bounce_tpl')
    if tpl:
        # harness-chosen template: the whole bounce body is determined byte for byte
        ht, ft, rj = BOUNCE_TEMPLATES[tpl]
        # the value substituted for {boundary} is the library's business (any printable token without line
        # breaks, the same at every occurrence): the reference is rendered with a placeholder and matched
        PH = b'\x00BOUNDARY\x00'
        table = {'sender': info['sender'].encode('utf-8'), 'recipients': rj.join(frc).encode('ascii', 'xmlcharrefreplace'),
                 'client_name': b'client.test', 'client_ip': b'192.0.2.1', 'protocol': b'ESMTP',
                 'code': code.encode('ascii'), 'message': msg.encode('utf-8'), 'boundary': PH}
        ref_head, _, ref_pre = _ref_render(ht, table).partition(b'\r\n\r\n')
        ref = ref_pre + want + _ref_render(ft, table)
        pieces = ref.split(PH)
        pat = re.escape(pieces[0])
        for i, piece in enumerate(pieces[1:]):
            pat += (b'(?P<b>[!-~]{1,200}?)' if i == 0 else b'(?P=b)') + re.escape(piece)
        got = body
        if re.fullmatch(pat, got, re.S) is None:
            # locate the first difference for the witness, using the token that follows the text before the
            # first placeholder (if the bounce got that far)
            tok = None
            if len(pieces) > 1 and got.startswith(pieces[0]):
                mo = re.match(b'[!-~]{1,200}', got[len(pieces[0]):])
                tok = mo.group(0) if mo else None
            ref2 = ref.replace(PH, b'<B>')
            got2 = got
            if tok:
                # the token runs up to where the reference text continues
                nxt = pieces[1][:1]
                cut = tok.find(nxt) if nxt and nxt in tok else len(tok)
                got2 = got.replace(tok[:cut], b'<B>') if cut > 0 else got
            k = next((i for i, (x, y) in enumerate(zip(got2, ref2)) if x != y), min(len(got2), len(ref2)))
            if want not in got:
                out.append(('original-not-embedded', {'headers_only': ho, 'template': tpl}))
            else:
                out.append(('custom-template-not-rendered-as-documented',
                            {'template': tpl, 'first_difference_at': k, 'observed': got2[max(0, k - 30):k + 40],
                             'expected': ref2[max(0, k - 30):k + 40]}))
        return out
    mo = re.search(br'boundary="([^"]+)"', head)
    parts = body.split(b'--' + mo.group(1)) if mo else []
    if len(parts) != 5 or parts[4] != b'--\r\n':
        out.append(('bounce-structure-unreadable', {'parts': len(parts), 'tail': body[-60:]}))
        # fall back to the containment tests
        if want not in flat:
            out.append(('original-not-embedded', {'headers_only': ho}))
        if reply_b not in flat:
            out.append(('reply-not-quoted', {'reply': [code, msg]}))
        return out
    report = parts[1] + parts[2]
    # -- the reply, quoted in the report parts (not merely somewhere in the embedded original)
    if reply_b not in report:
        out.append(('reply-not-quoted', {'reply': [code, msg]}))
    # -- exactly the failed recipients, each once
    named = [l[2:] for l in parts[1].split(b'\r\n') if l.startswith(b'- ')]
    left = list(named)
    for r in frc:
        hit = next((n for n in names(r) if n in left), None)
        if hit is None:
            out.append(('recipient-not-named', {'recipient': r, 'named': named[:8]}))
        else:
            left.remove(hit)
    known = {}
    for r in info['rc']:
        for n in names(r):
            known[n] = r
    for n in left:
        if n in known and known[n] not in frc:
            out.append(('unfailed-recipient-named', {'recipient': known[n]}))
        else:
            out.append(('recipient-named-more-than-its-share', {'name': n, 'named': named[:8], 'failed': frc[:8]}))
    # -- the original, byte-identical, as the whole content of the last part
    ctype = b'text/rfc822-headers' if ho else b'message/rfc822'
    mo = re.match(br'\r\nContent-Type: ([^\r\n]*)\r\n\r\n', parts[3])
    if mo is None:
        out.append(('original-not-embedded', {'headers_only': ho, 'why': 'last part has no readable header',
                                              'part_begins': parts[3][:60]}))
    else:
        emb = parts[3][mo.end():]
        if emb != want + b'\r\n':
            if ho and emb == info['flat'] + b'\r\n' and info['flat'] != info['hdr']:
                out.append(('body-embedded-in-headers-only', {}))
            elif ho and emb.startswith(info['hdr']) and len(emb) > len(info['hdr']) + 2:
                out.append(('body-embedded-in-headers-only', {'partly': True, 'surplus_bytes': len(emb) - len(want) - 2}))
            elif want in emb:
                out.append(('original-not-embedded', {'headers_only': ho, 'why': 'surrounded by other bytes',
                                                      'surplus_bytes': len(emb) - len(want) - 2}))
            else:
                k = next((i for i, (x, y) in enumerate(zip(emb, want)) if x != y), min(len(emb), len(want)))
                out.append(('original-not-embedded', {'headers_only': ho, 'why': 'differs', 'first_difference_at': k,
                                                      'observed': emb[max(0, k - 20):k + 30],
                                                      'original': want[max(0, k - 20):k + 30]}))
        if mo.group(1) != ctype:
            out.append(('embedded-part-mislabelled', {'content_type': mo.group(1), 'headers_only': ho}))
    return out


def judge_c13(lab, H):
    out = []
    if H.final is None:
        return out
    exp = _expected_bounces(lab, H)
    got = collections.Counter()
    fac = {}
    for e in lab.events:
        if e[1] == 'bounce_factory':
            bm, orig, rc, code, msg = e[2:7]
            if orig is not None and orig.startswith('b'):
                out.append(('bounce-of-bounce', orig, {'event': e}))
            if orig in lab.msgs and not lab.msgs[orig]['sender']:
                out.append(('bounce-for-null-sender', orig, {'event': e}))
            key = (orig, frozenset(rc), code, msg)
            got[key] += 1
            if bm is not None:
                fac[bm] = (orig, rc, code, msg)
    # The statement fixes which recipients and which reply a bounce carries, not the wording the queue adds:
    # a bounce after retry exhaustion quotes the last transient reply followed by any note of the queue's own
    # (message spec ('prefix', text)); the reply the queue makes up for an unexpected relay exception is its own
    # wording altogether (spec None: any 450 text). Everything else must quote the relay's reply exactly.
    def fits(spec, msg):
        if spec is None:
            return True
        if isinstance(spec, tuple):
            return msg is not None and msg.startswith(spec[1])
        return msg == spec
    want = collections.defaultdict(list)
    have = collections.defaultdict(list)
    for (m, rs, code, spec), k in exp.items():
        want[(m, rs, code)].extend([spec] * k)
    for (m, rs, code, msg), k in got.items():
        have[(m, rs, code)].extend([msg] * k)
    for key in set(want) | set(have):
        specs = sorted(want.get(key, []), key=lambda sp: 2 if sp is None else 1 if isinstance(sp, tuple) else 0)
        msgs = list(have.get(key, []))
        for sp in specs:
            hit = next((i for i, x in enumerate(msgs) if fits(sp, x)), None)
            if hit is not None:
                msgs.pop(hit)
                continue
            # a differing grouping shows as one missing + one extra
            out.append(('missing-bounce', key[0], {'bounce': [key[0], sorted(key[1]), key[2], sp],
                                                   'observed_same_recipients_and_code': list(have.get(key, []))}))
        for x in msgs:
            out.append(('extra-bounce', key[0], {'bounce': [key[0], sorted(key[1]), key[2], x],
                                                 'expected_same_recipients_and_code': [str(z) for z in want.get(key, [])]}))
    # the queue's own wording is free, but it must not drift from one bounce to the next: over a whole history no
    # quoted 4xx text may be a proper prefix of another one that continues with a repetition of its own tail (a
    # note appended again and again to a shared reply object)
    texts = sorted(set(msg for (m, rs, code, msg), k in got.items() if msg and code[:1] == '4'))
    for a in texts:
        for b in texts:
            if a is not b and len(b) > len(a) and b.startswith(a) and a.endswith(b[len(a):]):
                out.append(('bounce-reply-text-grows-from-bounce-to-bounce', None, {'shorter': a, 'longer': b}))
                break
    enq = {}
    for e in lab.events:
        if e[1] == 'bounce_enqueued':
            bm, sender, rc, flat = e[2:6]
            enq[bm] = e
            if bm not in fac:
                continue
            orig, frc, code, msg = fac[bm]
            info = lab.msgs.get(orig)
            if info is None:
                continue
            if sender != '':
                out.append(('bounce-sender-not-null', orig, {'sender': sender}))
            if rc != [info['sender']]:
                out.append(('bounce-wrong-addressee', orig, {'addressed_to': rc, 'orig_sender': info['sender']}))
            for kind, detail in _bounce_content(lab, info, frc, code, msg, flat):
                detail['bounce'] = bm
                out.append((kind, orig, detail))
    for e in lab.events:
        if e[1] == 'bounce_misrouted':
            out.append(('bounce-not-handed-to-configured-bounce-queue', fac.get(e[2], (None,))[0], {'bounce': e[2]}))
    for bm in fac:
        if bm in [e[2] for e in lab.events if e[1] == 'bounce_misrouted']:
            continue
        if bm not in enq:
            out.append(('bounce-not-enqueued-via-bounce-queue', fac[bm][0], {'bounce': bm}))
    # over the whole history: a recipient is failed for good once -- it is named in at most one bounce of its
    # message, and never in a bounce once the relay probe has recorded it delivered
    delivered_at = {}
    named_in = collections.defaultdict(list)
    for seq, e in enumerate(lab.events):
        if e[1] == 'attempt_end':
            for r, (c, rep) in e[5].items():
                if c == 'D':
                    delivered_at.setdefault((e[2], r), seq)
        elif e[1] == 'bounce_factory':
            bm, orig, rc, code, msg = e[2:7]
            if orig not in lab.msgs:
                continue
            for r in set(rc):
                if (orig, r) in delivered_at:
                    out.append(('delivered-recipient-bounced', orig, {'recipient': r, 'reply': [code, msg]}))
                named_in[(orig, r)].append([bm, code, msg])
    for (orig, r), l in named_in.items():
        if len(l) > 1:
            out.append(('recipient-bounced-twice', orig, {'recipient': r, 'bounces': l[:4]}))
    # loop guard: messages ever written <= accepted + bounces expected
    nwrites = sum(1 for e in lab.events if e[1] == 'store' and e[2] == 'write')
    nacc = sum(1 for m, i in lab.msgs.items() if i['enqueued'] and not i.get('prepop') and not i.get('ext'))
    if nwrites > nacc + sum(got.values()):
        out.append(('unbounded-message-creation', None, {'writes': nwrites, 'accepted': nacc,
                                                         'bounces': sum(got.values())}))
    return out
