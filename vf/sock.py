"""Scripted socket stand-ins (the trusted base for the wire-level checks).

ScriptSocket implements exactly the calls slimta makes on a connected socket
(recv, recv_into, sendall, send, close, getpeername, fileno) and hands out
harness-chosen segments.  A read when nothing more is scripted raises WouldBlock
(a BaseException, so slimta's `except Exception` handlers cannot swallow it): the
real program would block forever there, which is what the oracles want to know.
"""


class WouldBlock(BaseException):
    """The code under test tried to read when no more bytes are owed to it."""


class ScriptSocket(object):

    def __init__(self, segments=(), eof=False, on_recv=None, on_send=None, peer=('127.0.0.1', 4321)):
        self.segments = [bytes(s) for s in segments if s != b'']
        self.eof = eof
        self.sent = []          # every sendall() payload, in order
        self.recv_calls = 0
        self.consumed = 0       # bytes handed out so far
        self.closed = False
        self.on_recv = on_recv  # called before each read; may append segments / set eof
        self.on_send = on_send
        self.peer = peer

    # --- feeding
    def feed(self, data):
        if data:
            self.segments.append(bytes(data))

    def unread(self):
        return b''.join(self.segments)

    # --- socket API used by slimta
    def _next(self, n):
        self.recv_calls += 1
        if self.on_recv is not None:
            self.on_recv(self)
        if not self.segments:
            if self.eof:
                return b''
            raise WouldBlock()
        seg = self.segments[0]
        if len(seg) <= n:
            self.segments.pop(0)
            out = seg
        else:
            out = seg[:n]
            self.segments[0] = seg[n:]
        self.consumed += len(out)
        return out

    def recv(self, n, *flags):
        return self._next(n)

    def recv_into(self, buf, nbytes=0, *flags):
        n = nbytes or len(buf)
        data = self._next(n)
        buf[:len(data)] = data
        return len(data)

    def sendall(self, data, *flags):
        data = bytes(data)
        self.sent.append(data)
        if self.on_send is not None:
            self.on_send(self, data)

    def send(self, data, *flags):
        self.sendall(data)
        return len(data)

    def close(self):
        self.closed = True

    def shutdown(self, how):
        pass

    def getpeername(self):
        return self.peer

    def getsockname(self):
        return ('127.0.0.1', 25)

    def fileno(self):
        return -1

    def settimeout(self, t):
        pass

    def setsockopt(self, *a):
        pass


def cut(data, cuts):
    """Split data at the sorted cut offsets."""
    out, last = [], 0
    for c in cuts:
        out.append(data[last:c])
        last = c
    out.append(data[last:])
    return [s for s in out if s != b'']


def segmentations(data, rnd, focus=(), exhaustive_upto=9, nrandom=12, pair_window=3):
    """Yield (label, [segments]) — all 2^(n-1) segmentations when the stream is short,
    otherwise: whole, bytewise, every single cut, every pair of cuts within
    +-pair_window of each focus offset, and seeded random cut sets."""
    n = len(data)
    if n == 0:
        yield 'whole', []
        return
    if n <= exhaustive_upto:
        for mask in range(1 << (n - 1)):
            cuts = [i + 1 for i in range(n - 1) if mask >> i & 1]
            yield 'all', cut(data, cuts)
        return
    yield 'whole', [data]
    yield 'bytewise', [data[i:i + 1] for i in range(n)]
    for k in range(1, n):
        yield 'cut1', cut(data, [k])
    seen = set()
    for f in focus:
        lo, hi = max(1, f - pair_window), min(n - 1, f + pair_window)
        for a in range(lo, hi + 1):
            for b in range(a + 1, hi + 1):
                if (a, b) not in seen:
                    seen.add((a, b))
                    yield 'cut2', cut(data, [a, b])
    for _ in range(nrandom):
        k = rnd.randint(2, min(n - 1, 8)) if n > 2 else 1
        cuts = sorted(rnd.sample(range(1, n), k))
        yield 'rand', cut(data, cuts)
