"""Per-run self-signed certificate and ssl contexts (real TLS over socketpairs)."""
import os
import subprocess
import tempfile

from gevent import ssl

_state = {}


def cert_files():
    """(certfile, keyfile) generated once per process under VERIF_SCRATCH with openssl."""
    if 'cert' not in _state:
        base = os.environ.get('VERIF_SCRATCH')
        d = tempfile.mkdtemp(prefix='tls-', dir=base if base and os.path.isdir(base) else None)
        cert, key = os.path.join(d, 'cert.pem'), os.path.join(d, 'key.pem')
        subprocess.run(['openssl', 'req', '-x509', '-newkey', 'ec', '-pkeyopt', 'ec_paramgen_curve:prime256v1',
                        '-nodes', '-keyout', key, '-out', cert, '-days', '2', '-subj', '/CN=verif.test'],
                       check=True, stdout=subprocess.DEVNULL, stderr=subprocess.DEVNULL)
        _state['cert'] = (cert, key)
        _state['dir'] = d
    return _state['cert']


def server_context():
    cert, key = cert_files()
    ctx = ssl.SSLContext(ssl.PROTOCOL_TLS_SERVER)
    ctx.load_cert_chain(cert, key)
    return ctx


def client_context():
    ctx = ssl.SSLContext(ssl.PROTOCOL_TLS_CLIENT)
    ctx.check_hostname = False
    ctx.verify_mode = ssl.CERT_NONE
    return ctx


def cleanup():
    import shutil
    d = _state.pop('dir', None)
    _state.pop('cert', None)
    if d:
        shutil.rmtree(d, ignore_errors=True)
