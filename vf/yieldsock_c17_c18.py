"""Scripted socket whose reads really block the calling greenlet (concurrency strata of C17 / C18).

YieldSocket hands out harness-fed pieces like vf.sock.ScriptSocket, but a read when nothing is ready waits on
a gevent Event: the greenlet is switched out exactly as on a gevent socket without data, and other connections'
handlers run in the gap.  The feeder (the harness greenlet) decides the global order: feed one piece to one
connection, then settle() until that connection's greenlet is blocked in a read again or has finished.  No
timers, no real I/O: a schedule is a pure function of the feed order.
"""
import gevent
from gevent.event import Event


class YieldSocket(object):

    def __init__(self, peer=('127.0.0.1', 4321)):
        self.pieces = []
        self.eof = False
        self.ev = Event()
        self.waiting = False
        self.consumed = 0
        self.recv_calls = 0
        self.sent = []
        self.closed = False
        self.peer = peer
        # per-connection monitor records
        self.calls = []
        self.pp_trace = []
        self.exc = None

    # --- harness side
    def feed(self, data):
        if data:
            self.pieces.append(bytes(data))
            self.ev.set()

    def end(self):
        self.eof = True
        self.ev.set()

    def unread(self):
        return b''.join(self.pieces)

    # --- socket API
    def _next(self, n):
        self.recv_calls += 1
        while not self.pieces:
            if self.eof:
                return b''
            self.waiting = True
            self.ev.clear()
            self.ev.wait()
            self.waiting = False
        seg = self.pieces[0]
        if len(seg) <= n:
            self.pieces.pop(0)
            out = seg
        else:
            out = seg[:n]
            self.pieces[0] = seg[n:]
        self.consumed += len(out)
        return out

    def recv(self, n, *flags):
        return self._next(n)

    def recv_into(self, buf, nbytes=0, *flags):
        n = nbytes or len(buf)
        data = self._next(n)
        buf[:len(data)] = data
        return len(data)

    def sendall(self, data, *flags):
        self.sent.append(bytes(data))

    def send(self, data, *flags):
        self.sendall(data)
        return len(data)

    def close(self):
        self.closed = True

    def shutdown(self, how):
        pass

    def getpeername(self):
        return self.peer

    def getsockname(self):
        return ('127.0.0.1', 25)

    def fileno(self):
        return -1

    def settimeout(self, t):
        pass

    def setsockopt(self, *a):
        pass


def settle(sock, glet, limit=200):
    """Let the hub run until `glet` is blocked in a read of `sock` with nothing ready, or is dead.
    Returns False if that state is not reached within `limit` hub turns (-> inconclusive)."""
    for _ in range(limit):
        gevent.sleep(0)
        if glet.dead or (sock.waiting and not sock.pieces and not sock.eof):
            return True
    return False


def interleavings(counts):
    """All orders of feeding: sequences over connection indexes in which index i occurs counts[i] times."""
    total = sum(counts)

    def rec(left, acc):
        if len(acc) == total:
            yield list(acc)
            return
        for i, c in enumerate(left):
            if c:
                left[i] -= 1
                acc.append(i)
                for x in rec(left, acc):
                    yield x
                acc.pop()
                left[i] += 1
    return rec(list(counts), [])
